#!/bin/sh
# tools/mutant.sh <patch.diff> <PROP> [tier] : apply a patch to a scratch copy of
# /repo's working tree, run the repository's own tests there, run ./check
# against the copy, delete the copy.  Prints TESTS=pass|fail and the check's
# verdict.  Never touches /repo or the committed evidence.
set -u
PATCH=$(realpath "$1"); PROP=$2; TIER=${3:-quick}
D=$(mktemp -d /tmp/vmon-mut-XXXXXX)
trap 'rm -rf "$D"' EXIT
rsync -a --exclude .git --exclude '*.pyc' --exclude __pycache__ /repo/ "$D/repo/"
( cd "$D/repo" && patch -p1 -s < "$PATCH" ) || { echo "PATCH FAILED"; exit 9; }
if [ "${SKIP_TESTS:-0}" != 1 ]; then
( cd "$D/repo" && PYTHONPATH="$D/repo" /venv/bin/python -m pytest -q -p no:cacheprovider -x pyModelChecking >"$D/tests.log" 2>&1 ) \
  && echo "TESTS=pass" || { echo "TESTS=fail"; tail -5 "$D/tests.log"; }
fi
mkdir -p "$D/out"
cd "$(dirname "$0")/.."
VMON_REPO="$D/repo" VMON_OUT="$D/out" ./check "$PROP" --tier "$TIER" > "$D/check.log" 2>&1
RC=$?
grep -E "^(VIOLATION|KNOWN-FINDING|INCONCLUSIVE|HELD)" "$D/check.log" | head -4
grep -E "^  (monitor=|case=|observed=)" "$D/check.log" | head -3 | cut -c1-300
echo "CHECK_EXIT=$RC"
