"""C06 -- answers are independent of presentation order, naming and hash seed.

 c06.meta      in-process metamorphic monitor: for a case (K, f, logic) and a
               transformation tau (state bijection to other types, reordering
               and re-typing of the S/R/L collections, consistent atom
               renaming, adding states unreachable from the original ones),
               tau^-1(mc(tau K, tau f)) restricted to the original states
               equals mc(K, f)
 c06.hashseed  cross-process monitor: the same fixed case list is evaluated by
               workers started with different PYTHONHASHSEED values; the
               parent compares the canonical results case by case
Internal schedules actually seen (order of the tableau atom list, order in
which SCCs are emitted) are digested per case so the evidence can show that
the seeds really perturbed the computation.
"""

import sys

from .. import mon, mcwrap, gen, mcwork, reflang
from ..mon import LOG
from ..neutral import (show, NK, build, lang, tree_of, rename_atoms,
                       atoms_of)

PROP = 'C06'

CONFIG = {
    'technique': ('runtime metamorphic monitors: in-process presentation '
                  'transformations and cross-process comparison of results '
                  'under different PYTHONHASHSEED, with digests of the '
                  'internal schedules observed'),
    'level_text': ('Each case of a fixed seeded list (three logics, long '
                   'string atom names, string/int states) is run by several '
                   'fresh interpreters with different hash seeds and under 6 '
                   'presentation transformations; all answers must '
                   'correspond. Evidence counts the distinct internal '
                   'schedules (atom-list and SCC emission orders) seen.'
                   ' Also: a bulk stream of cheap CTL cases on 5-8 state'
                   ' structures, a deterministic block of'
                   ' next-time-over-negative/temporal formulas, very long atom'
                   ' names sharing a stem, equal-but-distinct state objects.'
                   ' Also (round 6): composite atom names (one name put together from two others) on three-atom formulas.'),
    'level_note': ('Trusted base: the transformations and their inverses in '
                   'vmon/props/c06.py. A finite sample of seeds/orderings; '
                   'a run in which the seeds did not change any internal '
                   'order is reported inconclusive.'),
    'deciding': ['c06.meta', 'c06.hashseed'],
    'shards': {'quick': 16, 'thorough': 16},
    'hashseeds': {'quick': 4, 'thorough': 16},
    'min_evals': {'quick': {'c06.meta': 200000, 'c06.hashseed': 900},
                  'thorough': {'c06.meta': 60000, 'c06.hashseed': 4000}},
    'must_sig': ['tau:bijection', 'tau:containers', 'tau:atoms',
                 'tau:unreachable', 'tau:shuffle', 'tau:retype',
                 'tau:distinct_objects', 'tau:atoms_long', 'tau:atoms_related',
                 'logic:CTL', 'logic:LTL', 'logic:CTLS', 'bulk:CTL',
                 'block:long_names', 'block:cyclic_ltl',
                 'block:composite_names'],
    'rule': ('cases = (structure, formula, logic) from a seeded list; each '
             'evaluated under every hash seed of the run (fresh interpreter '
             'per seed) and under 6 transformations in-process. non-trivial '
             '= the baseline answer is neither empty nor all states; '
             'distinct by case index (cases are generated distinct by seed)'),
    'exhaustive': {'quick': False, 'thorough': False},
    'assumptions': ['hash seeds sampled: see coverage.hash_seeds; state '
                    'names never alias under =='],
}

ATOM_NAMES = {'p': 'proposition_alpha_long_name', 'q': 'q_beta_second_atom',
              'r': 'rho_the_third_atomic_proposition'}
_orders = []


def _attach_orders():
    m = sys.modules['pyModelChecking.LTL.model_checking']
    orig_ba = m._build_atoms

    def _build_atoms(K, closure):
        atoms = orig_ba(K, closure)
        try:
            _orders.append(('atoms', [repr(a.state) + '|' + '|'.join(
                sorted(show(tree_of(f)) for f in a)) for a in atoms]))
        except Exception:
            pass
        return atoms
    mon.rebind(orig_ba, _build_atoms)
    g = sys.modules['pyModelChecking.graph']
    orig_scc = g.compute_SCCs

    def compute_SCCs(G):
        out = []
        for scc in orig_scc(G):
            out.append(sorted(map(repr, scc)))
            yield scc
        _orders.append(('sccs', out))
    mon.rebind(orig_scc, compute_SCCs)
    return True


def attach():
    mcwrap.attach()
    mon.attach_once('c06.orders', _attach_orders)


_parsers = {}


def mc(logic, K, f):
    L = lang(logic)
    return L.modelcheck(K, f)


_FAM = {}


def similar_pairs():
    """Two different quantified subformulas that start alike (same
    quantifier, operator and first operand) in one formula."""
    p, q, r_ = ('ap', 'p'), ('ap', 'q'), ('ap', 'r')
    out = []
    for Q, op in (('E', 'G'), ('A', 'F'), ('E', 'F'), ('A', 'G')):
        for bop in ('and', 'or'):
            f1 = (Q, (op, (bop, p, q)))
            f2 = (Q, (op, (bop, p, r_)))
            out += [('and', ('not', f1), f2), ('and', f2, ('not', f1)),
                    ('or', f1, ('not', f2)), ('imply', f1, f2),
                    ('E', ('F', ('and', ('not', f1), f2))),
                    ('A', ('G', ('or', f1, ('X', f2))))]
    for Q in 'AE':
        u1 = (Q, ('U', p, ('and', q, r_)))
        u2 = (Q, ('U', p, ('and', q, ('not', r_))))
        out += [('and', ('not', u1), u2), ('or', u2, ('not', u1)),
                ('E', ('X', ('and', u2, ('not', u1))))]
    return out


def families():
    if not _FAM:
        _FAM['CTLS'] = gen.enum_ctls_small() + similar_pairs()
        from ..neutral import count_ops, TEMPORAL
        _FAM['LTL'] = [('A', g) for g in gen.enum_ltl_path(2)
                       if 2 <= count_ops(g, TEMPORAL) <= 3]
    return _FAM


def x_family():
    """next-time over negative / temporal operands, under both entry points:
    the shapes where the tableau's processing order of closure members (a
    function of string hashes) matters most."""
    p, q = ('ap', 'p'), ('ap', 'q')
    gs = [('G', p), ('not', ('F', p)), ('R', p, q), ('not', ('U', p, q)),
          ('not', p), ('G', ('not', p)), ('F', ('G', p)), ('not', ('X', p)),
          ('X', ('not', q)), ('or', ('G', p), ('not', q)),
          ('and', ('not', p), ('F', q)), ('U', ('not', p), ('G', q))]
    out = []
    for g in gs:
        for Q in 'AE':
            out.append(('CTLS', (Q, ('X', g))))
            out.append(('CTLS', (Q, ('and', ('X', g), ('F', q)))))
        out.append(('LTL', ('A', ('X', g))))
        out.append(('LTL', ('A', ('not', ('X', g)))))
    return out


X_STRUCTS = [
    ([0b01], [{'p', 'q'}]),
    ([0b10, 0b10], [{'p'}, {'p', 'q'}]),
    ([0b10, 0b01], [{'p'}, set()]),
    ([0b11, 0b10], [{'q'}, {'p'}]),
    ([0b010, 0b100, 0b100], [{'p'}, {'p', 'q'}, {'p'}]),
    ([0b010, 0b101, 0b100], [set(), {'p'}, {'p', 'q'}]),
]


def make_case(r, idx):
    if idx >= 100000:
        # deterministic x-family block of the cross-seed list
        k = idx - 100000
        xf = x_family()
        logic, t = xf[k % len(xf)]
        succ, labs = X_STRUCTS[(k // len(xf)) % len(X_STRUCTS)]
        ren = {'p': ATOM_NAMES['p'], 'q': ATOM_NAMES['q']}
        if (k // (len(xf) * len(X_STRUCTS))) % 2:
            ren = {'p': 'alpha', 'q': 'second_atom_b'}
        t = rename_atoms(t, ren)
        labels = [frozenset(ren[a] for a in l) for l in labs]
        names = ['n%d' % i for i in range(len(succ))] if k % 2 else \
            list(range(len(succ)))
        return logic, NK(names, succ, labels), t
    logic = ('CTL', 'LTL', 'CTLS')[idx % 3]
    atoms = ('p', 'q', 'r')
    nk = gen.random_structure(r, 5, atoms=atoms, nmin=2)
    fam = families()
    if logic == 'CTL':
        t = gen.random_ctl(r, r.randint(1, 3), atoms)
    elif logic == 'LTL':
        if idx % 2:
            t = r.choice(fam['LTL'])
        else:
            t = ('A', gen.random_ltl_path(r, r.randint(1, 3), atoms,
                                          max_temporal=3))
    elif idx % 2:
        t = r.choice(fam['CTLS'])
    else:
        t = gen.random_ctls_state(r, r.randint(2, 3), atoms, qdepth=2)
    # long atom names so that string hashing really matters
    t = rename_atoms(t, ATOM_NAMES)
    labels = [frozenset(ATOM_NAMES[a] for a in l) for l in nk.labels]
    kind = idx % 4
    if kind == 0:
        names = list(range(nk.n))
    elif kind == 1:
        names = ['state_%s_%d' % ('abcde'[i], i * 37) for i in range(nk.n)]
    elif kind == 2:
        names = [('t', i) for i in range(nk.n)]
    else:
        names = [frozenset(['fs', i]) for i in range(nk.n)]
    return logic, NK(names, nk.succ, labels), t


def fresh(s):
    """An equal but distinct object (so that `is` and `==` differ)."""
    if isinstance(s, str):
        return ''.join(list(s))
    if isinstance(s, tuple):
        return tuple(fresh(x) for x in s)
    if isinstance(s, frozenset):
        return frozenset(fresh(x) for x in s)
    if isinstance(s, int) and not isinstance(s, bool):
        return int(str(s))
    return s


def build_K(nk, r=None, containers=0, order=None, extra=None,
            fresh_objects=False):
    """Real Kripke from a neutral structure in a given presentation."""
    from pyModelChecking.kripke import Kripke
    n = nk.n
    idxs = list(range(n)) if order is None else list(order)
    fo = fresh if fresh_objects else (lambda x: x)
    S = [fo(nk.states[i]) for i in idxs]
    R = [(fo(nk.states[i]), fo(nk.states[j])) for i in idxs for j in range(n)
         if nk.succ[i] >> j & 1]
    Litems = [(fo(nk.states[i]),
               frozenset(fo(a) for a in nk.labels[i])) for i in idxs]
    if r is not None:
        r.shuffle(R)
        r.shuffle(Litems)
    if extra:
        S += extra['S']
        R += extra['R']
        Litems += extra['L']
        if r is not None:
            r.shuffle(R)
    if containers == 0:
        return Kripke(S=S, R=R, L={s: set(l) for s, l in Litems})
    if containers == 1:
        return Kripke(S=set(S), R=set(R),
                      L={s: list(l) for s, l in Litems})
    if containers == 2:
        return Kripke(S=tuple(S), R=tuple(R),
                      L={s: tuple(sorted(l)) for s, l in Litems})
    if containers == 3:
        return Kripke(S=(s for s in S), R=(e for e in R),
                      L={s: frozenset(l) for s, l in Litems})
    return Kripke(R=R, L={s: set(l) for s, l in Litems})   # S omitted


def canon(res, nk):
    """Result as sorted original indices; None if not a set of states."""
    try:
        return sorted(nk.idx[s] for s in res if s in nk.idx)
    except Exception:
        return None


def run_base(logic, nk, t):
    K = build_K(nk)
    del _orders[:]
    try:
        res = mc(logic, K, build(lang(logic), t))
        out = canon(res, nk)
    except Exception as e:
        out = 'raise:' + type(e).__name__
    return out, mon.digest(_orders)


def transformations(r, logic, nk, t):
    """yield (name, tau_nk, tau_t, back) where back maps tau-states to
    original indices (None for added states)."""
    n = nk.n
    # 1 bijection onto other types
    perm = list(range(n))
    r.shuffle(perm)
    kinds = [lambda i: 1000 - perm[i] * 7,
             lambda i: 'renamed/%d/%s' % (perm[i], 'xyz'[perm[i] % 3]),
             lambda i: (perm[i], 'tuple-state'),
             lambda i: frozenset([perm[i], 'fs'])]
    mk = r.choice(kinds)
    names = [mk(i) for i in range(n)]
    yield ('bijection', NK(names, nk.succ, nk.labels), t,
           {names[i]: i for i in range(n)}, {})
    # 2 container types / generator arguments / S omitted
    yield ('containers', nk, t, {nk.states[i]: i for i in range(n)},
           {'containers': r.randint(1, 4)})
    # 3 shuffled presentation order
    order = list(range(n))
    r.shuffle(order)
    yield ('shuffle', nk, t, {nk.states[i]: i for i in range(n)},
           {'order': order, 'shuffle': True})
    # 4 consistent atom renaming
    atoms = sorted(atoms_of(t) | set(a for l in nk.labels for a in l))
    pad = r.choice(['', '', '_and_a_very_long_suffix_to_make_printed_forms_'
                    'exceed_any_reasonable_width' * r.randint(1, 2)])
    ren = {a: 'z%d_%s%s' % (r.randrange(10 ** 6), a[::-1], pad)
           for a in atoms}
    if pad:
        # same long stem for every atom: names differ only at the very end
        ren = {a: 'atom%s_%d' % (pad, i) for i, a in enumerate(atoms)}
        LOG.sig['tau:atoms_long'] += 1
    elif r.random() < 0.4:
        # names related to each other: prefixes, case variants
        rel = r.choice([['ab', 'abc', 'a', 'abcd'], ['Pp', 'pp', 'PP', 'pP'],
                        ['x1', 'x10', 'x01', 'x'], ['Xa', 'X_a', 'aX', 'AX']])
        ren = {a: rel[i % len(rel)] for i, a in enumerate(atoms)}
        LOG.sig['tau:atoms_related'] += 1
    yield ('atoms', NK(nk.states, nk.succ,
                       [frozenset(ren[a] for a in l) for l in nk.labels]),
           rename_atoms(t, ren), {nk.states[i]: i for i in range(n)}, {})
    # 5 states unreachable from the original ones
    k = r.randint(1, 5)
    new = ['unreach_%d' % j if not isinstance(nk.states[0], int)
           else 5000 + j for j in range(k)]
    R = []
    Ls = []
    allatoms = sorted(set(a for l in nk.labels for a in l)) or ['p']
    for j, s in enumerate(new):
        # edges into the original states and among the new ones only
        tgt = r.sample(list(nk.states) + new, r.randint(1, 2))
        for d in tgt:
            R.append((s, d))
        Ls.append((s, frozenset(a for a in allatoms if r.random() < 0.5)))
    yield ('unreachable', nk, t, {nk.states[i]: i for i in range(n)},
           {'extra': {'S': new, 'R': R, 'L': Ls}, 'shuffle': True})
    # 5b every occurrence of a state / atom name is an equal but distinct
    # object (identity-based comparisons would break)
    big = [s_ if not isinstance(s_, int) else 100000 + s_
           for s_ in nk.states]
    yield ('distinct_objects', NK(big, nk.succ, nk.labels), t,
           {big[i]: i for i in range(n)}, {'fresh_objects': True,
                                           'shuffle': True})
    # 6 bijection + retyped containers + shuffle together
    names2 = ['S%03d' % (perm[i] * 11) for i in range(n)]
    yield ('retype', NK(names2, nk.succ, nk.labels), t,
           {names2[i]: i for i in range(n)},
           {'containers': r.randint(0, 4), 'shuffle': True})


def meta(r, idx, logic, nk, t, base):
    for name, tnk, tt, back, opts in transformations(r, logic, nk, t):
        LOG.hit('c06.meta')
        LOG.sig['tau:' + name] += 1
        try:
            K = build_K(tnk, r if opts.get('shuffle') else None,
                        opts.get('containers', 0), opts.get('order'),
                        opts.get('extra'), opts.get('fresh_objects', False))
            ft = rename_atoms(tt, {a: fresh(a) for a in atoms_of(tt)}) \
                if opts.get('fresh_objects') else tt
            res = mc(logic, K, build(lang(logic), ft))
            out = sorted(back[s] for s in res if s in back)
            junk = [s for s in res if s not in back and
                    s not in (opts.get('extra') or {'S': []})['S']]
            if junk:
                out = 'non-state in result: %r' % (junk,)
        except Exception as e:
            out = 'raise:' + type(e).__name__
        if out != base:
            LOG.violation('c06.meta', PROP,
                          {'case_index': idx, 'logic': logic,
                           'K': nk.to_json(), 'formula': t,
                           'transformation': name,
                           'tauK': tnk.to_json(), 'opts': repr(opts)[:300]},
                          out, base,
                          note='answer changed under transformation ' + name)


BULK_FORMS = None


def bulk_forms():
    p, q, r_ = ('ap', ATOM_NAMES['p']), ('ap', ATOM_NAMES['q']), \
        ('ap', ATOM_NAMES['r'])
    T = ('bool', True)
    out = []
    for a in (p, q, ('or', p, q), ('not', r_), ('and', p, ('not', q))):
        out += [('E', ('G', a)), ('A', ('F', a)), ('A', ('G', a)),
                ('E', ('F', a))]
        for b in (q, r_, ('and', p, q), ('not', p)):
            out += [('E', ('U', a, b)), ('A', ('U', a, b)),
                    ('E', ('R', a, b)), ('A', ('R', a, b))]
    out += [('E', ('G', ('E', ('F', p)))), ('A', ('G', ('E', ('U', p, q)))),
            ('E', ('U', ('E', ('G', p)), q)),
            ('and', ('E', ('U', p, q)), ('not', q)),
            ('imply', ('E', ('U', p, q)), q),
            ('or', ('A', ('G', p)), ('not', p))]
    return out


def bulk_ctl(ctx):
    """Many cheap CTL cases on larger structures (5-8 states, most states
    satisfying the atoms, so that phi-subgraphs have several SCCs and the
    until/global algorithms depend on visiting order), each under all
    transformations.  Order-dependent faults in SCC search, reachability or
    edge insertion show as a changed answer."""
    global BULK_FORMS
    if BULK_FORMS is None:
        BULK_FORMS = bulk_forms()
    n = 16000 if ctx.quick else 240000
    for k in range(n):
        if not ctx.mine(k):
            continue
        r = gen.rng(ctx.seed, PROP, ('bulk', k))
        nk0 = gen.random_structure(r, 8, atoms=('p', 'q', 'r'), nmin=5,
                                   maxdeg=2,
                                   shape=r.choice(['plain', 'chain', 'plain',
                                                   'unreach']))
        labels = []
        for i in range(nk0.n):
            labels.append(frozenset(ATOM_NAMES[a] for a in ('p', 'q', 'r')
                                    if r.random() < (0.8 if a == 'p'
                                                     else 0.35)))
        kind = k % 3
        if kind == 0:
            names = list(range(nk0.n))
        elif kind == 1:
            names = ['st_%s%d' % ('qwertyui'[i], i * 13)
                     for i in range(nk0.n)]
        else:
            names = [(i % 3, 'k%d' % i) for i in range(nk0.n)]
        nk = NK(names, nk0.succ, labels)
        t = r.choice(BULK_FORMS) if r.random() < 0.8 else \
            rename_atoms(gen.random_ctl(r, 3, ('p', 'q', 'r')), ATOM_NAMES)
        base, od = run_base('CTL', nk, t)
        LOG.sig['bulk:CTL'] += 1
        if isinstance(base, list) and 0 < len(base) < nk.n:
            LOG.mark_nontrivial(('bulk', k))
        meta(r, 1000000 + k, 'CTL', nk, t, base)
        # more renamings / orders for the same case (cheap for CTL): visiting
        # orders of SCC search and reachability change with each of them
        meta(r, 1000000 + k, 'CTL', nk, t, base)
        meta(r, 1000000 + k, 'CTL', nk, t, base)


def long_name_block(ctx):
    """Every similar-subformula formula on a few structures: short atom
    names versus very long names sharing a stem (printed forms of different
    subformulas then agree on a long prefix)."""
    stem = '_and_a_very_long_suffix_to_make_printed_forms_exceed_any_' \
        'reasonable_width'
    forms = similar_pairs()
    shapes = [([0b011, 0b110, 0b101], [{'p', 'q'}, {'p'}, {'p', 'r'}]),
              ([0b10, 0b11], [{'p', 'q'}, {'p', 'r'}]),
              ([0b0110, 0b1001, 0b0100, 0b0001],
               [{'p', 'r'}, {'p', 'q'}, {'p'}, {'q'}]),
              ([0b010, 0b100, 0b011], [{'p', 'q', 'r'}, {'p', 'q'}, {'p'}])]
    k = 0
    for succ, labs in shapes:
        for t in forms:
            if ctx.mine(k):
                nk = NK(range(len(succ)), succ, labs)
                base, _ = run_base('CTLS', nk, t)
                ren = {a: 'atom%s_%d' % (stem, i)
                       for i, a in enumerate(('p', 'q', 'r'))}
                nk2 = NK(nk.states, nk.succ,
                         [frozenset(ren[a] for a in l) for l in nk.labels])
                LOG.hit('c06.meta')
                LOG.sig['block:long_names'] += 1
                try:
                    K = build_K(nk2)
                    res = mc('CTLS', K, build(lang('CTLS'),
                                              rename_atoms(t, ren)))
                    out = canon(res, nk2)
                except Exception as e:
                    out = 'raise:' + type(e).__name__
                if out != base:
                    LOG.violation('c06.meta', PROP,
                                  {'case_index': 2000000 + k,
                                   'logic': 'CTLS', 'K': nk.to_json(),
                                   'formula': t,
                                   'transformation': 'long atom names'},
                                  out, base,
                                  note='answer changed when atoms were '
                                       'renamed to long names sharing a stem')
            k += 1


def composite_name_block(ctx):
    """Three-atom formulas under renamings in which one atom's name is put
    together from the other two (a, b, a_b / ab / a_and_b / b_a ...), on
    structures where one state carries exactly the two components and another
    exactly the composite.  Anything that identifies a label SET by joining
    its names (a key, a printed form, a fresh identifier) confuses the two."""
    import itertools
    p, q, r_ = ('ap', 'p'), ('ap', 'q'), ('ap', 'r')
    forms = [('LTL', ('A', ('or', r_, ('X', ('and', p, q))))),
             ('LTL', ('A', ('G', ('imply', p, ('F', r_))))),
             ('LTL', ('A', ('U', ('and', p, q), r_))),
             ('LTL', ('A', ('F', ('and', r_, ('not', p))))),
             ('LTL', ('A', ('X', ('or', ('and', p, q), ('X', r_))))),
             ('LTL', ('A', ('R', r_, ('or', p, q)))),
             ('CTL', ('E', ('X', ('and', p, ('and', q, ('not', r_)))))),
             ('CTL', ('A', ('G', ('or', r_, ('E', ('X', ('and', p, q))))))),
             ('CTL', ('E', ('U', ('or', p, q), r_))),
             ('CTLS', ('E', ('and', ('F', r_), ('G', ('or', p, q))))),
             ('CTLS', ('A', ('F', ('G', ('or', ('and', p, q), r_))))),
             ('CTLS', ('E', ('X', ('and', ('X', r_), ('and', p, q)))))]
    shapes = [([0b010, 0b100, 0b001], [{'p', 'q'}, {'r'}, {'p'}]),
              ([0b011, 0b100, 0b101], [{'r'}, {'p', 'q'}, {'q'}]),
              ([0b0010, 0b0101, 0b1000, 0b0001],
               [{'p', 'q'}, {'r'}, {'q'}, set()]),
              ([0b0110, 0b1000, 0b1001, 0b0001],
               [{'p'}, {'p', 'q'}, {'r'}, {'p', 'q', 'r'}]),
              ([0b10, 0b01], [{'r'}, {'p', 'q'}])]
    fams = [('a', 'b', 'a_b'), ('a', 'b', 'ab'), ('a', 'b', 'b_a'),
            ('x', 'y', 'x_and_y'), ('a', 'b', 'a__b'), ('a', 'b', 'a_or_b'),
            ('a', 'b', 'a b'.replace(' ', '')), ('p', 'q', 'p_q'),
            ('a', 'b', 'a_b_'), ('a_', 'b', 'a__b'), ('a', '_b', 'a__b')]
    k = 0
    for succ, labs in shapes:
        nk = NK(range(len(succ)), succ, [frozenset(l) for l in labs])
        for logic, t in forms:
            base = None
            for fam in fams:
                for perm in itertools.permutations(fam):
                    k += 1
                    if not ctx.mine(k):
                        continue
                    if perm.index(fam[2]) != 2 and k % 3:
                        continue      # the composite mostly stands for r
                    if base is None:
                        base, _ = run_base(logic, nk, t)
                    ren = dict(zip(('p', 'q', 'r'), perm))
                    nk2 = NK(nk.states, nk.succ,
                             [frozenset(ren[a] for a in l)
                              for l in nk.labels])
                    LOG.hit('c06.meta')
                    LOG.sig['block:composite_names'] += 1
                    try:
                        K = build_K(nk2)
                        res = mc(logic, K, build(lang(logic),
                                                 rename_atoms(t, ren)))
                        out = canon(res, nk2)
                    except Exception as e:
                        out = 'raise:' + type(e).__name__
                    if out != base:
                        LOG.violation('c06.meta', PROP,
                                      {'case_index': 4000000 + k,
                                       'logic': logic, 'K': nk.to_json(),
                                       'formula': t, 'renaming': ren,
                                       'transformation': 'composite atom '
                                                         'names'},
                                      out, base,
                                      note='answer changed when atoms were '
                                           'renamed so that one name is put '
                                           'together from two others')


def cyclic_ltl_block(ctx):
    """Cyclic structures with 5-6 states and tail-dependent LTL / CTL*
    formulas (F G, G F, U G): the fulfilling cycle spans several tableau
    atoms, so SCC search order matters.  Every case runs under two rounds of
    all transformations."""
    P, Q, N, PQ = ATOM_NAMES['p'], ATOM_NAMES['q'], None, None
    p, q = ('ap', P), ('ap', Q)
    forms = [('LTL', ('A', ('F', ('G', ('or', p, q))))),
             ('LTL', ('A', ('G', ('F', p)))), ('LTL', ('A', ('F', ('G', p)))),
             ('LTL', ('A', ('U', p, ('G', q)))),
             ('LTL', ('A', ('imply', ('G', ('F', p)), ('G', ('F', q))))),
             ('CTLS', ('E', ('G', ('F', ('and', p, ('not', q)))))),
             ('CTLS', ('A', ('F', ('G', ('or', p, q))))),
             ('CTLS', ('E', ('and', ('F', ('G', p)), ('G', ('F', q)))))]
    shapes = []
    for n in (5, 6):
        ring = [1 << ((i + 1) % n) for i in range(n)]
        chord = list(ring)
        chord[0] |= 1 << 2
        chord[3] |= 1 << 1
        two = list(ring)
        two[n - 1] = 1 << (n - 2)            # a tail into a 2-cycle
        two[n - 2] |= 1 << (n - 1)
        for succ in (ring, chord, two):
            for lab in range(2):
                labels = []
                for i in range(n):
                    l = set()
                    if (i + lab) % 3 != 0:
                        l.add(P)
                    if (i * 2 + lab) % 5 == 0:
                        l.add(Q)
                    labels.append(frozenset(l))
                shapes.append((succ, labels))
    k = 0
    for si, (succ, labels) in enumerate(shapes):
        for logic, t in forms:
            if ctx.mine(k):
                names = ['c%d' % i for i in range(len(succ))] if si % 2 \
                    else list(range(len(succ)))
                nk = NK(names, succ, labels)
                base, _ = run_base(logic, nk, t)
                LOG.sig['block:cyclic_ltl'] += 1
                r = gen.rng(ctx.seed, PROP, ('cyc', k))
                meta(r, 3000000 + k, logic, nk, t, base)
            k += 1


def run(ctx):
    attach()
    long_name_block(ctx)
    composite_name_block(ctx)
    cyclic_ltl_block(ctx)
    bulk_ctl(ctx)
    ncases = 320 if ctx.quick else 4800
    nseeds = CONFIG['hashseeds'][ctx.tier]
    ngroups = max(1, ctx.nshards // nseeds)
    group = ctx.shard // nseeds
    results = {}
    orders = {}
    nx = len(x_family()) * len(X_STRUCTS) * 2
    idxs = list(range(ncases)) + [100000 + k for k in range(nx)]
    for idx in idxs:
        if idx % ngroups != group:
            continue
        r = gen.rng(ctx.seed, PROP, idx)
        logic, nk, t = make_case(r, idx)
        base, od = run_base(logic, nk, t)
        results[idx] = base
        orders[idx] = od
        LOG.sig['logic:' + logic] += 1
        if isinstance(base, list) and 0 < len(base) < nk.n:
            LOG.counters['nontrivial_base'] += 1
        # the metamorphic part is split between the workers of a group's
        # seeds so that each case meets several (seed, transformation) pairs
        meta(gen.rng(ctx.seed, PROP, (idx, ctx.hashseed)), idx, logic, nk, t,
             base)
        if idx % 97 == 0:
            LOG.sample({'case_index': idx, 'logic': logic,
                        'K': nk.to_json(), 'formula': show(t),
                        'answer(indices)': base})
    ctx.extra['results'] = results
    ctx.extra['orders'] = orders


def finalize(reports, ctx):
    by_case = {}
    orders = {}
    for rep in reports:
        hs = rep['hashseed']
        for idx, res in rep['extra'].get('results', {}).items():
            by_case.setdefault(idx, {})[hs] = res
        for idx, od in rep['extra'].get('orders', {}).items():
            orders.setdefault(idx, set()).add(od)
    viol = []
    evals = 0
    nontriv = 0
    for idx, d in by_case.items():
        evals += 1
        vals = list(d.values())
        if any(v != vals[0] for v in vals):
            viol.append({'monitor': 'c06.hashseed', 'property': PROP,
                         'case': {'case_index': int(idx),
                                  'regenerate': 'gen.rng(seed, "C06", idx)'},
                         'observed': {str(k): v for k, v in d.items()},
                         'replay_hashseeds': sorted(d.keys()),
                         'expected': 'one answer under every hash seed',
                         'note': 'answer depends on PYTHONHASHSEED'})
    multi = sum(1 for idx, s in orders.items() if len(s) >= 2)
    cov = {'cases_compared_across_seeds': evals,
           'seeds_per_case': sorted(set(len(d) for d in by_case.values())),
           'cases_with>=2_distinct_internal_schedules': multi}
    inc = []
    nseeds = len(ctx['hashseeds'])
    if evals and multi < 0.2 * evals:
        inc.append('hash seeds perturbed the internal order of only %d of %d '
                   'cases' % (multi, evals))
    if any(len(d) < min(nseeds, 2) for d in by_case.values()):
        inc.append('some cases were evaluated under a single seed')
    nt = sum(r['counters'].get('nontrivial_base', 0) for r in reports)
    return {'violations': viol, 'evals': {'c06.hashseed': evals},
            'coverage': cov, 'inconclusive': inc,
            'nontrivial_extra': nt // max(1, nseeds)}


def replay(ctx, rep):
    attach()
    c = rep['case']
    idx = c['case_index']
    if idx >= 4000000:
        class _C4(object):
            pass
        cc = _C4()
        want = idx - 4000000
        cc.mine = lambda i: i == want
        composite_name_block(cc)
        return
    if idx >= 3000000:
        from ..mcwork import to_tuple, nk_from_json
        nk = nk_from_json(c['K'], real_names=True)
        t = to_tuple(c['formula'])
        for attempt in range(12):
            base, od = run_base(c['logic'], nk, t)
            meta(gen.rng(ctx.seed, PROP, ('replay', attempt)), idx,
                 c['logic'], nk, t, base)
        return
    if idx >= 2000000:
        class _C(object):
            pass
        cc = _C()
        want = idx - 2000000
        cc.mine = lambda i: i == want
        long_name_block(cc)
        return
    if idx >= 1000000:
        # bulk CTL case: re-run the structure/formula recorded in the case
        from ..mcwork import to_tuple, nk_from_json
        nk = nk_from_json(c['K'], real_names=True)
        t = to_tuple(c['formula'])
        for attempt in range(40):
            base, od = run_base('CTL', nk, t)
            meta(gen.rng(ctx.seed, PROP, ('replay', attempt)), idx, 'CTL',
                 nk, t, base)
        return
    r = gen.rng(int(rep.get('seed', ctx.seed)), PROP, idx)
    logic, nk, t = make_case(r, idx)
    base, od = run_base(logic, nk, t)
    # the driver runs this replay once per recorded hash seed and compares
    # the answers of the fresh processes with each other
    ctx.extra['replay_result'] = base
    meta(gen.rng(ctx.seed, PROP, (idx, ctx.hashseed)), idx, logic, nk, t,
         base)
