"""C02 -- LTL model checking returns exactly the states whose every path
satisfies g.

Deciding monitor c02.modelcheck: every return of LTL.modelcheck (top level or
nested inside CTLS) with F=None and an LTL state formula A g is compared with
refsem.star; every state the reference excludes carries a lasso path extracted
from the product and certified by the independent evaluator pathsem
(c02.certificate); on small structures every state the reference includes is
cross-checked against all lassos of bounded length (c02.all_lassos).
Diagnostic monitor c02.atoms: every atom returned by _build_atoms is locally
consistent and no consistent atom is missing.
"""

import sys

from .. import mon, mcwrap, refsem, pathsem, reflang, gen, probes, mcwork
from ..mon import LOG
from ..neutral import tree_of, show, height, NK, count_ops, TEMPORAL, nk_of

PROP = 'C02'

CONFIG = {
    'technique': ('runtime monitor: postcondition on every LTL.modelcheck '
                  'return vs a product-automaton reference, each excluded '
                  'state certified by a lasso checked with an independent '
                  'path evaluator; tableau-atom consistency hook'),
    'level_text': ('Every return of the real LTL.modelcheck observed during '
                   'enumerated small-scope and seeded random workloads (under '
                   'several hash seeds, i.e. several tableau construction '
                   'orders) is judged against refsem.star; exclusions are '
                   'certified by concrete lassos, inclusions cross-checked '
                   'by bounded lasso enumeration.'
                   ' A fixed block of hostile formulas runs under every hash seed'
                   ' of the run (8 quick / 16 thorough); random cases vary state'
                   ' and atom names.'
                   ' Also (round 6): a mixed-polarity family -- the same eventuality or compound promised in one operand and refuted in the other, both operand orders.'),
    'level_note': ('Trusted base: vmon/refsem.py (product construction), '
                   'vmon/pathsem.py (lasso evaluator) -- they must agree for '
                   'a case to be judged; neutral forms; CPython.'),
    'internal_monitors': ['c02.atoms'],
    'deciding': ['c02.modelcheck'],
    'shards': {'quick': 16, 'thorough': 16},
    'hashseeds': {'quick': 8, 'thorough': 16},
    'min_evals': {'quick': {'c02.modelcheck': 15000, 'c02.atoms': 15000,
                            'c02.certificate': 5000},
                  'thorough': {'c02.modelcheck': 300000}},
    'internal_sig': ['scc:self_fulfilling',
                     'scc:rejected_not_self_fulfilling'],
    'must_sig': ['reach:_build_atoms:A_tail.append( atom | {Lang.Not(Lang.X(phi))',
                 'reach:_build_atoms:new_atom = atom | set([phi, Lang.X(LNot(sf))])',
                 'scc:self_fulfilling', 'scc:rejected_not_self_fulfilling',
                 'style:text', 'root:U', 'root:R', 'root:G', 'block:every_seed',
                 'family:long_distance', 'history:mutation',
                 'family:mixed_polarity'],
    'rule': ('cases = (Kripke structure, LTL formula A g, presentation '
             'style); enumerated: class representatives of all total '
             'structures with <=2 states (quick; <=3 thorough) over {p,q} x '
             'all path formulas g of operator depth <=1, and a slice of depth '
             '2 with <=3 temporal operators; plus seeded random structures '
             '(<=5 states) x random path formulas of depth <=3. non-trivial = '
             'the reference answer is neither empty nor all states; distinct '
             '= distinct (structure, formula tree): enumerated cases are '
             'distinct by construction, random ones deduplicated by digest '
             'and counted only outside the enumerated scope'),
    'exhaustive': {'quick': False, 'thorough': True},
    'exhaustive_note': ('thorough: all 3,918 class representatives (<=3 '
                        'states, {p,q}) x all 100 depth-<=1 path formulas; '
                        'representatives with <=2 states x all 4,324 '
                        'depth-<=2 formulas'),
    'assumptions': ['refsem.star is the oracle; an "excluded" verdict is '
                    'only used when its lasso certificate passes pathsem',
                    'class representatives stand for isomorphic structures'],
}

_enum = [False]


def judge(c):
    if c.logic != 'LTL' or c.F is not None or c.nk is None:
        return
    t = c.denoted()
    if t is None or not reflang.well_formed(t) or \
            not reflang.checkable(t, 'LTL'):
        LOG.counters['c02.out_of_domain'] += 1
        return
    nk = c.nk
    g = t[1]
    try:
        S = refsem.Star(nk, cap_nodes=1 << 13)
        neg = ('not', g)
        bad_mask = S.exists(neg)           # states with a path violating g
    except refsem.RefSkip:
        LOG.skipped['c02.reference_cap'] += 1
        return
    exp = nk.full & ~bad_mask
    LOG.hit('c02.modelcheck', c.site)
    LOG.sig['root:' + g[0]] += 1
    if c.nested:
        LOG.sig['nested'] += 1

    # certificates for the exclusions
    def leaf(x, s):
        return bool(S.sat(x) >> s & 1)
    for s in range(nk.n):
        if bad_mask >> s & 1:
            LOG.hit('c02.certificate')
            u, v = S.witness(neg, s)
            path = u + v
            ok = path[0] == s and all(
                nk.succ[a] >> b & 1 for a, b in zip(path, path[1:] + [v[0]]))
            ok = ok and pathsem.holds_on_lasso(neg, u, v, leaf)
            if not ok:
                LOG.counters['oracle.certificate_failed'] += 1
                raise RuntimeError('reference certificate failed: %r %r %r %r'
                                   % (nk.to_json(), g, u, v))
    if nk.n <= 3 and (c.seq % 7 == 0):
        for s in range(nk.n):
            if exp >> s & 1:
                LOG.hit('c02.all_lassos')
                for (u, v) in pathsem.all_lassos_of(nk, s, 5):
                    if not pathsem.holds_on_lasso(g, u, v, leaf):
                        LOG.counters['oracle.inclusion_refuted'] += 1
                        raise RuntimeError('reference inclusion refuted by '
                                           'lasso %r %r on %r %r'
                                           % (u, v, nk.to_json(), g))
    expl = sorted(i for i in range(nk.n) if exp >> i & 1)
    if c.raised is not None:
        LOG.violation('c02.modelcheck', PROP, c.case(),
                      'raised ' + mon.fmt_exc(c.raised), expl,
                      note='exception instead of a set',
                      extra={'tb': mon.short_tb(c.raised)})
        return
    obs = c.result_mask
    if c.result_bad or obs != exp:
        wit = None
        extra_states = [i for i in range(nk.n) if (obs or 0) & ~exp >> i & 1]
        if extra_states:
            u, v = S.witness(neg, extra_states[0])
            wit = {'state': extra_states[0], 'u': u, 'v': v,
                   'meaning': 'path u.v^omega violates g'}
        LOG.violation('c02.modelcheck', PROP, c.case(),
                      c.result_bad or
                      sorted(i for i in range(nk.n) if obs >> i & 1), expl,
                      note='missing=%s extra=%s (state indices)' % (
                          [i for i in range(nk.n)
                           if exp & ~(obs or 0) >> i & 1], extra_states),
                      extra={'counterexample': wit,
                             'atoms_diag': list(_last_atoms_diag)})
    cls = 'empty' if exp == 0 else ('all' if exp == nk.full else 'proper')
    LOG.sig['answer:' + cls] += 1
    if cls == 'proper':
        if _enum[0] and not c.nested:
            LOG.counters['nontrivial_in_scope'] += 1
        elif nk.n > 3 or height(g) > 2 or c.nested:
            LOG.mark_nontrivial((nk.key(), t), PROP)


# ---- tableau diagnostics -------------------------------------------------

_last_atoms_diag = []


def _consistent(atomset, closure_trees, labels):
    """Is the set of trees a locally consistent, maximal subset of the
    closure for a state with the given labels? returns reason or None."""
    for t in closure_trees:
        neg = t[1] if t[0] == 'not' else ('not', t)
        a = t in atomset
        b = neg in atomset
        if t == ('bool', False) or t == ('not', ('bool', True)):
            if a:
                return 'contains %s' % show(t)
            continue
        if a == b:
            return ('contains both %s and its negation' if a else
                    'contains neither %s nor its negation') % show(t)
    for t in atomset:
        op = t[0]
        if op == 'ap' and t[1] not in labels:
            return 'contains atom %s not labelling the state' % t[1]
        if op == 'not' and t[1][0] == 'ap' and t[1][1] in labels:
            return 'contains not %s although it labels the state' % t[1][1]
        if op == 'or':
            if not any(c in atomset for c in t[1:]):
                return 'contains %s but none of its disjuncts' % show(t)
        if op == 'not' and t[1][0] == 'or':
            if any(c in atomset for c in t[1][1:]):
                return 'contains %s and one of the disjuncts' % show(t)
        if op == 'U':
            xu = ('X', t)
            if not (t[2] in atomset or (t[1] in atomset and xu in atomset)):
                return 'contains %s without h, or g and X(gUh)' % show(t)
        if op == 'not' and t[1][0] == 'U':
            u = t[1]
            xu = ('X', u)
            if u[2] in atomset or (u[1] in atomset and xu in atomset):
                return 'contains %s although h, or g and X(gUh), holds' \
                    % show(t)
        if op == 'not' and t[1][0] == 'X':
            # not X f  <->  X not f
            f = t[1][1]
            nf = f[1] if f[0] == 'not' else ('not', f)
            if ('X', nf) not in atomset and ('X', nf) in closure_trees:
                return 'contains %s but not X(not f)' % show(t)
    return None


def _attach_internal():
    m = sys.modules['pyModelChecking.LTL.model_checking']
    orig_ba = m._build_atoms

    def _build_atoms(K, closure):
        atoms = orig_ba(K, closure)
        try:
            LOG.hit('c02.atoms')
            ctrees = set(tree_of(f) for f in closure)
            del _last_atoms_diag[:]
            seen = {}
            for a in atoms:
                ts = frozenset(tree_of(f) for f in a)
                lab = K._labels[a.state]
                why = _consistent(ts, ctrees, lab)
                key = (repr(a.state), ts)
                if key in seen:
                    why = why or 'duplicate atom'
                seen[key] = True
                if why:
                    LOG.counters['c02.inconsistent_atoms'] += 1
                    if len(_last_atoms_diag) < 3:
                        _last_atoms_diag.append(
                            {'state': repr(a.state), 'why': why,
                             'atom': sorted(show(t) for t in ts)})
            LOG.sig['atoms_order:' + mon.digest(
                [sorted(show(t) for t in (tree_of(f) for f in a))
                 for a in atoms])[:2]] += 1
        except Exception as e:
            LOG.counters['c02.atoms_unjudged'] += 1
        return atoms
    mon.rebind(orig_ba, _build_atoms)

    orig_sf = m._is_non_trivial_self_fulfilling

    def _is_non_trivial_self_fulfilling(T, C, closure):
        r = orig_sf(T, C, closure)
        if r:
            LOG.sig['scc:self_fulfilling'] += 1
        else:
            i = next(iter(C))
            if len(C) > 1 or i in T.next(i):
                LOG.sig['scc:rejected_not_self_fulfilling'] += 1
            else:
                LOG.sig['scc:trivial'] += 1
        return r
    mon.rebind(orig_sf, _is_non_trivial_self_fulfilling)
    probes.watch([('_build_atoms', orig_ba),
                  ('_get_closure', m._get_closure),
                  ('_does_respect_Xs', m._does_respect_Xs),
                  ('_is_non_trivial_self_fulfilling', orig_sf),
                  ('_checkE_path_formula', m._checkE_path_formula),
                  ('LTL.modelcheck', mcwrap.original('LTL'))])


def attach():
    mcwrap.attach()
    mon.attach_once('c02.internal',
                    lambda: mon.safe_internal(_attach_internal))
    if judge not in mcwrap.judges:
        mcwrap.judges.append(judge)


# ---- workload ----

_parser = [None]


def run_case(nk, g, i, K=None):
    from pyModelChecking import LTL
    style = ('obj', 'raw', 'text')[i % 3]
    LOG.sig['style:' + style] += 1
    if K is None:
        K = mcwork.kripke_of(nk)
    t = ('A', g)
    f = mcwork.formula_arg('LTL', t, style)
    try:
        if style == 'text' and i % 96 != 2:
            if _parser[0] is None:
                _parser[0] = LTL.Parser()
            LTL.modelcheck(K, f, parser=_parser[0])
        else:
            LTL.modelcheck(K, f)
    except Exception:
        pass
    if i % 499 == 0:
        LOG.sample({'K': nk.to_json(), 'formula': show(t), 'style': style})


def hostile_formulas():
    p, q = ('ap', 'p'), ('ap', 'q')
    T, Fa = ('bool', True), ('bool', False)
    return [
        ('G', p), ('F', p), ('G', ('F', p)), ('F', ('G', p)),
        ('not', Fa), ('not', T), T, Fa, ('U', T, p), ('U', p, Fa),
        ('R', Fa, p), ('R', p, q), ('U', p, ('U', q, p)),
        ('X', ('U', p, q)), ('not', ('X', ('not', ('X', p)))),
        ('U', ('X', p), ('X', q)), ('U', ('not', ('X', p)), q),
        ('and', ('G', ('F', p)), ('G', ('F', q))),
        ('imply', ('G', ('F', p)), ('G', ('F', q))),
        ('or', ('F', ('G', p)), ('F', ('G', ('not', p)))),
        ('U', ('U', p, q), ('not', p)), ('R', ('R', p, q), p),
        ('G', ('imply', p, ('X', ('F', q)))),
        ('and', p, ('X', ('and', q, ('X', p)))),
        ('not', ('U', p, ('not', ('U', q, p)))),
        ('X', ('X', ('X', p))), ('F', ('and', p, ('X', p))),
        ('or', p, q, ('X', p)), ('and', p, q, ('G', q)),
        ('not', ('X', ('U', p, q))), ('X', ('not', ('U', p, q))),
        ('R', ('X', p), q), ('R', ('F', p), q), ('U', p, ('R', q, p)),
        ('G', ('U', p, q)), ('F', ('R', p, q)), ('U', ('G', p), q),
        ('R', ('U', p, q), ('X', q)), ('not', ('R', ('not', p), ('X', q))),
        ('U', ('X', ('not', p)), ('not', ('X', q))),
        ('imply', ('U', p, q), ('X', ('U', p, q))),
        ('and', ('U', p, q), ('R', q, p)), ('or', ('G', p), ('X', ('G', q))),
        ('not', ('or', ('X', p), ('U', q, ('X', p)))),
        ('X', ('R', ('not', q), ('or', p, ('X', q)))),
    ]


def mixed_polarity_formulas():
    """The same eventuality u once under an odd and once under an even
    number of negations, in both operand orders of every binary operator:
    (F G not p) and (F p), (X not F p) and (F p), (not (p U q)) U (F (p U q))
    ...  An until that is promised in one place and refuted in another must
    be fulfilled exactly where it is promised; anything that classifies a
    subformula once (by polarity, by first occurrence) gets one of the two
    orders wrong."""
    p, q = ('ap', 'p'), ('ap', 'q')
    us = [('F', p), ('U', p, q), ('G', p), ('R', p, q),
          ('F', ('and', p, ('X', q))), ('U', ('not', q), p),
          # compounds with an eventuality nested inside them
          ('X', ('F', p)), ('or', ('F', p), q), ('U', q, ('F', p)),
          ('X', ('U', p, q)), ('X', ('G', p)), ('and', ('G', p), q),
          ('or', ('U', p, q), ('X', p)), ('F', ('or', ('G', p), q))]
    neg = [lambda u: ('not', u), lambda u: ('X', ('not', u)),
           lambda u: ('F', ('not', u)), lambda u: ('G', ('not', u)),
           lambda u: ('not', ('X', u))]
    pos = [lambda u: u, lambda u: ('X', u), lambda u: ('F', u),
           lambda u: ('G', u)]
    out = []
    for u in us:
        for N in neg:
            for P in pos:
                a, b = N(u), P(u)
                for op in ('and', 'or', 'U', 'R', 'imply'):
                    out.append((op, a, b))
                    out.append((op, b, a))
                out.append(('and', a, q, b))
                out.append(('or', b, ('not', q), a))
    def distinct_temporal(g, acc):
        if g[0] in TEMPORAL:
            acc.add(g)
        for c in g[1:]:
            if isinstance(c, tuple):
                distinct_temporal(c, acc)
        return acc
    # the tableau grows with the number of DISTINCT temporal subformulas
    return [g for g in out if len(distinct_temporal(g, set())) <= 4]


def mixed_polarity_structures():
    P, Q, N, PQ = {'p'}, {'q'}, set(), {'p', 'q'}
    return [NK(range(3), [0b010, 0b100, 0b100], [N, P, N]),
            NK(range(2), [0b10, 0b10], [P, N]),
            NK(range(3), [0b010, 0b100, 0b100], [Q, P, Q]),
            NK(range(2), [0b10, 0b10], [N, P]),
            NK(range(2), [0b11, 0b10], [P, Q]),
            NK(range(3), [0b010, 0b100, 0b100], [P, Q, N]),
            NK(range(3), [0b110, 0b010, 0b100], [N, P, Q]),
            NK(range(3), [0b010, 0b101, 0b100], [P, N, PQ]),
            NK(range(3), [0b010, 0b100, 0b001], [P, N, Q]),
            NK(range(4), [0b0110, 0b0010, 0b1000, 0b1001], [PQ, P, N, Q])]


def run(ctx):
    attach()
    r = gen.rng(ctx.seed, PROP, 'main')
    k = 0
    mpf = mixed_polarity_formulas()
    for si, nk in enumerate(mixed_polarity_structures()):
        K = None
        for gi, g in enumerate(mpf):
            k += 1
            if not ctx.quick or si < 2 or (gi + si) % 4 == 0:
                if ctx.mine(k):
                    if K is None:
                        K = mcwork.kripke_of(nk)
                    LOG.sig['family:mixed_polarity'] += 1
                    run_case(nk, g, 3 * k, K)
    P1 = gen.enum_ltl_path(1)
    P2 = [g for g in gen.enum_ltl_path(2)[len(P1):]
          if count_ops(g, TEMPORAL) <= 3]
    reps = {n: list(gen.representatives(n)) for n in (1, 2, 3)}
    hf = hostile_formulas()
    if ctx.quick:
        structs = reps[1] + reps[2] + r.sample(reps[3], 60)
        p2s = r.sample(P2, 220)
        structs2 = reps[1] + r.sample(reps[2], 24) + r.sample(reps[3], 12)
        nrandom = 1500
    else:
        structs = reps[1] + reps[2] + reps[3]
        p2s = P2
        structs2 = reps[1] + reps[2] + r.sample(reps[3], 150)
        nrandom = 100000
    i = 0
    for si, nk in enumerate(structs):
        if not ctx.mine(si):
            continue
        K = mcwork.kripke_of(nk)
        _enum[0] = True
        for g in P1:
            run_case(nk, g, i, K)
            i += 1
        _enum[0] = False
        for g in hf:
            run_case(nk, g, i, K)
            i += 1
    for si, nk in enumerate(structs2):
        if not ctx.mine(si):
            continue
        K = mcwork.kripke_of(nk)
        _enum[0] = True
        for g in p2s:
            run_case(nk, g, i, K)
            i += 1
        _enum[0] = False
    # long distances: one-way rings with an exit to a sink, and formulas whose
    # witnesses have to travel round the ring several times
    a_, b_, c_ = ('ap', 'p'), ('ap', 'q'), ('ap', 'r')
    far = [
        ('not', ('F', ('and', a_, ('F', ('and', b_, ('F', ('and', a_,
                                                            ('F', c_)))))))),
        ('F', ('and', a_, ('F', ('and', b_, ('F', ('and', a_, ('F', c_))))))),
        ('G', ('imply', a_, ('F', ('and', b_, ('F', c_))))),
        ('U', ('not', c_), ('and', a_, ('X', ('U', ('not', c_), b_)))),
        ('F', ('and', c_, ('X', ('G', c_)))),
        ('not', ('F', ('and', b_, ('X', ('F', ('and', a_, ('X', ('F', b_)))))))),
        ('R', c_, ('or', ('not', a_), ('F', b_))),
    ]
    rings = []
    for n in (4, 5, 6):
        for exit_at in (0, n - 2):
            succ = [1 << ((i + 1) % n) for i in range(n)] + [1 << n]
            succ[exit_at] |= 1 << n                  # exit to the sink n
            labs = [{'p'} if i % 3 == 0 else ({'q'} if i % 3 == 1 else set())
                    for i in range(n)] + [{'r'}]
            rings.append(NK(range(n + 1), succ, labs))
    k = 0
    for nk in rings:
        for g in far:
            if ctx.mine(k):
                LOG.sig['family:long_distance'] += 1
                run_case(nk, g, 3 * k)
            k += 1
    # every placement of the two ring labels and of the exit (the number of
    # rounds a witness needs depends on their relative positions)
    for n in (4, 5):
        for pa in range(n):
            for pb in range(n):
                for ex in range(n):
                    if pa == pb:
                        continue
                    if ctx.mine(k):
                        succ = [1 << ((i + 1) % n) for i in range(n)] + \
                            [1 << n]
                        succ[ex] |= 1 << n
                        labs = [set() for _ in range(n)] + [{'r'}]
                        labs[pa].add('p')
                        labs[pb].add('q')
                        nk = NK(range(n + 1), succ, labs)
                        LOG.sig['family:long_distance'] += 1
                        run_case(nk, far[k % 2], 3 * k)
                    k += 1
    # one structure queried, relabelled / rewired in place, queried again
    from pyModelChecking import LTL as _LTL
    for h in range(90 if ctx.quick else 2500):
        rr = gen.rng(ctx.seed, PROP, ('mut', h))
        if not ctx.mine(h):
            continue
        LOG.sig['history:mutation'] += 1
        nk = gen.random_structure(rr, 4, atoms=('p', 'q'), nmin=2)
        K = mcwork.kripke_of(nk)
        forms = [('A', ('G', ('ap', 'p'))), ('A', ('F', ('ap', 'q'))),
                 ('A', ('U', ('ap', 'p'), ('ap', 'q'))),
                 ('A', gen.random_ltl_path(rr, 2, ('p', 'q'),
                                           max_temporal=2))]
        for step in range(5):
            for t in rr.sample(forms, 2):
                try:
                    _LTL.modelcheck(K, mcwork.formula_arg('LTL', t, 'obj'))
                except Exception:
                    pass
            sts = list(K.states())
            x = rr.random()
            s_ = rr.choice(sts)
            if x < 0.5:
                atom = rr.choice(['p', 'q'])
                if atom in K.labels(s_):
                    K.labels(s_).discard(atom)
                else:
                    K.labels(s_).add(atom)
            elif x < 0.8:
                d = rr.choice(sts)
                if d not in K.next(s_):
                    K.add_edge(s_, d)
            else:
                K.replace_labelling_function(
                    {z: set(y for y in ('p', 'q') if rr.random() < 0.5)
                     for z in sts})
    # a fixed block run by EVERY worker, i.e. under every hash seed of the
    # run: the closure order of the tableau is a function of string hashes
    blk = [NK(range(3), [0b010, 0b100, 0b001], [{'p'}, set(), {'q'}]),
           NK(range(4), [0b0010, 0b0101, 0b1000, 0b1000],
              [{'p'}, {'p', 'q'}, set(), {'q'}]),
           NK(range(2), [0b11, 0b01], [{'p'}, {'q'}])]
    for bi, nk in enumerate(blk):
        for gi, g in enumerate(hf):
            if (bi + gi) % 2 == ctx.shard % 2:
                run_case(nk, g, 3 * gi)            # object style
                LOG.sig['block:every_seed'] += 1
    for k in range(nrandom):
        nk = gen.random_structure(r, 5)
        g = gen.random_ltl_path(r, r.randint(1, 3), max_temporal=4)
        if not ctx.mine(k):
            continue
        # state and atom naming variety (hash order depends on the names)
        if k % 3 == 1:
            ren = {'p': 'alpha_long_atom_name', 'q': 'b', 'r': 'Rho_3'}
            from ..neutral import rename_atoms
            g = rename_atoms(g, ren)
            nk = NK(nk.states, nk.succ,
                    [frozenset(ren[a] for a in l) for l in nk.labels])
        if k % 4 == 2:
            nk = NK(['s%d' % i for i in range(nk.n)], nk.succ, nk.labels)
        elif k % 4 == 3:
            nk = NK([(i, 't') for i in range(nk.n)], nk.succ, nk.labels)
        run_case(nk, g, i, mcwork.kripke_of(nk, list(nk.states)))
        i += 1
    LOG.nontrivial_extra += LOG.counters.pop('nontrivial_in_scope', 0)
    ctx.extra['reach'] = probes.result()


def finalize(reports, ctx):
    merged = probes.merge([r['extra'].get('reach', {}) for r in reports])
    cov = {'reach': {k: {'lines': v['lines'], 'hit': v['hit'],
                         'never_reached': v['never_reached']}
                     for k, v in merged.items()}}
    ev, waived = probes.reach_sigs(merged, CONFIG['must_sig'])
    cov['reach_requirements_waived'] = waived
    orders = set()
    for r in reports:
        for k in r['sig']:
            if k.startswith('atoms_order:'):
                orders.add(k)
    cov['distinct_atom_list_digests_seen(2 hex digits)'] = len(orders)
    return {'coverage': cov, 'sig_add': ev}


def replay(ctx, rep):
    attach()
    mcwork.replay_mc(rep['case'])
