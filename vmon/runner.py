"""Worker entry point: python -m vmon.runner PROP --tier .. --shard i --nshards n
--seed s --out file [--replay file]

Runs one shard of one property's workload with its monitors attached, in a
fresh interpreter whose PYTHONHASHSEED was chosen by the parent, and writes the
monitor log as JSON.
"""

import argparse
import faulthandler
import importlib
import json
import os
import sys
import time


class Ctx(object):
    def __init__(self, a):
        self.prop = a.prop
        self.tier = a.tier
        self.shard = a.shard
        self.nshards = a.nshards
        self.seed = a.seed
        self.replay = a.replay
        self.hashseed = os.environ.get('PYTHONHASHSEED', 'random')
        self.extra = {}
        self.quick = a.tier == 'quick'

    def mine(self, i):
        """Does case number i belong to this shard."""
        return i % self.nshards == self.shard


def main(argv=None):
    faulthandler.enable()
    p = argparse.ArgumentParser()
    p.add_argument('prop')
    p.add_argument('--tier', default='quick')
    p.add_argument('--shard', type=int, default=0)
    p.add_argument('--nshards', type=int, default=1)
    p.add_argument('--seed', type=int, default=0)
    p.add_argument('--out', required=True)
    p.add_argument('--replay', default=None)
    a = p.parse_args(argv)
    from vmon import mon
    path = mon.assert_repo()
    mon.LOG.owner = a.prop.upper()
    ctx = Ctx(a)
    mod = importlib.import_module('vmon.props.' + a.prop.lower())
    t0 = time.time()
    status = 'ok'
    err = None
    try:
        if a.replay:
            mon.LOG.raising = True
            with open(a.replay) as fh:
                rep = json.load(fh)
            mod.replay(ctx, rep)
            # the single case did not reproduce: the violation may depend on
            # the history of calls before it -- re-run the whole (seeded,
            # deterministic) shard that observed it, stopping at the first
            # unexplained violation
            if rep.get('nshards') and rep.get('shard') is not None and \
                    rep.get('tier'):
                ctx.shard = int(rep['shard'])
                ctx.nshards = int(rep['nshards'])
                ctx.tier = rep['tier']
                ctx.quick = ctx.tier == 'quick'
                ctx.seed = int(rep.get('seed', ctx.seed))
                mod.run(ctx)
        else:
            mod.run(ctx)
    except mon.PostBroken as e:
        status = 'replay-violation'
        err = str(e)
    except BaseException as e:     # harness failure: inconclusive, not held
        import traceback
        status = 'crash'
        err = traceback.format_exc()
    rep = mon.LOG.report()
    rep.update({'status': status, 'error': err, 'wall_s': time.time() - t0,
                'shard': a.shard, 'hashseed': ctx.hashseed,
                'repo_path': path, 'extra': ctx.extra,
                'python': sys.version.split()[0]})
    with open(a.out, 'w') as fh:
        json.dump(rep, fh, default=repr)
    if status == 'replay-violation':
        print(err)
        sys.exit(1)
    if status == 'crash':
        sys.stderr.write(err)
        sys.exit(3)


if __name__ == '__main__':
    main()
