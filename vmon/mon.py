"""Monitor registry, wrapping/rebinding of the real functions, run log."""

import sys
import json
import hashlib
import collections
import traceback

PKG = 'pyModelChecking'


class InvariantBroken(BaseException):
    pass


class PostBroken(BaseException):
    pass


class Log(object):
    """What the monitors observed during one worker run."""

    MAX_KEEP = 40          # violation records kept per monitor (all counted)

    def __init__(self):
        self.evals = collections.Counter()       # monitor -> evaluations
        self.sites = collections.defaultdict(set)  # monitor -> call sites
        self.nviol = collections.Counter()
        self.nfind = collections.Counter()       # (property, finding) -> n
        self.violations = []
        self.sig = collections.Counter()         # behaviour signatures
        self.counters = collections.Counter()    # free-form counters
        self.samples = []
        self.nontrivial = set()                  # digests of nontrivial cases
        self.nontrivial_extra = 0                # counted-by-construction
        self.skipped = collections.Counter()
        self.notes = []
        self.raising = False                     # replay mode: raise at once

    def hit(self, monitor, site=None):
        self.evals[monitor] += 1
        if site is not None and len(self.sites[monitor]) < 12:
            self.sites[monitor].add(site)

    def violation(self, monitor, prop, case, observed, expected, note='',
                  extra=None):
        self.nviol[monitor] += 1
        rec = {'monitor': monitor, 'property': prop, 'case': case,
               'observed': observed, 'expected': expected, 'note': note}
        if extra:
            rec.update(extra)
        # every violating execution is counted per (property, finding);
        # records are kept per (monitor, finding) so that unexplained ones
        # are never crowded out by executions of a known finding
        fkey = '%s|%s' % (prop, rec.get('finding'))
        self.nfind[fkey] += 1
        kkey = (monitor, rec.get('finding'))
        self._kept = getattr(self, '_kept', collections.Counter())
        self._kept[kkey] += 1
        if self._kept[kkey] <= self.MAX_KEEP:
            self.violations.append(rec)
        if self.raising and rec.get('finding') is None:
            # replay mode: stop at the first violation that no listed finding
            # explains
            raise PostBroken(json.dumps(rec, default=repr)[:2000])

    def sample(self, s, cap=6):
        if len(self.samples) < cap:
            self.samples.append(s)

    owner = None      # property whose check is running (set by the runner)

    def mark_nontrivial(self, key, prop=None):
        # monitors of other properties stay attached as diagnostics (C01/C02
        # inside C03 ...): only the checked property's own cases are counted
        if prop is not None and self.owner is not None and prop != self.owner:
            return
        self.nontrivial.add(digest(key))

    def report(self):
        return {
            'evals': dict(self.evals),
            'sites': {k: sorted(v) for k, v in self.sites.items()},
            'nviol': dict(self.nviol),
            'nfind': dict(self.nfind),
            'violations': self.violations,
            'sig': {str(k): v for k, v in self.sig.items()},
            'counters': dict(self.counters),
            'samples': self.samples,
            'nontrivial': sorted(self.nontrivial),
            'nontrivial_extra': self.nontrivial_extra,
            'skipped': dict(self.skipped),
            'notes': self.notes[:50],
        }


LOG = Log()


def digest(obj):
    return hashlib.blake2b(repr(obj).encode('utf8', 'replace'),
                           digest_size=8).hexdigest()


def caller_site(depth=2):
    """module:function of the frame that called the wrapped function."""
    try:
        f = sys._getframe(depth)
        mod = f.f_globals.get('__name__', '?')
        while mod.startswith('icontract') and f.f_back is not None:
            f = f.f_back
            mod = f.f_globals.get('__name__', '?')
        return '%s:%s' % (mod, f.f_code.co_name)
    except Exception:
        return '?'


def rebind(orig, new):
    """Replace every binding of `orig` in the loaded pyModelChecking modules
    (module globals and class dicts).  `from x import f` copies included.
    Returns the list of places rebound."""
    places = []
    for name, mod in list(sys.modules.items()):
        if mod is None or not (name == PKG or name.startswith(PKG + '.')):
            continue
        if name.startswith(PKG + '.tests'):
            pass
        d = getattr(mod, '__dict__', {})
        for k, v in list(d.items()):
            if v is orig:
                setattr(mod, k, new)
                places.append('%s.%s' % (name, k))
            elif isinstance(v, type) and v.__module__ == name:
                for ck, cv in list(v.__dict__.items()):
                    target = cv
                    if isinstance(cv, (staticmethod, classmethod)):
                        target = cv.__func__
                    if target is orig:
                        if isinstance(cv, staticmethod):
                            setattr(v, ck, staticmethod(new))
                        elif isinstance(cv, classmethod):
                            setattr(v, ck, classmethod(new))
                        else:
                            setattr(v, ck, new)
                        places.append('%s.%s.%s' % (name, v.__name__, ck))
    return places


_attached = {}


def attach_once(key, fn):
    """Run attaching function `fn` once per process."""
    if key not in _attached:
        _attached[key] = fn()
    return _attached[key]


def safe_internal(fn):
    """Attach diagnostic hooks on *private* functions.  If the repository no
    longer has them (a refactoring), the hooks are skipped and the
    requirements that depend on them are waived by the driver; deciding
    monitors never depend on private names."""
    try:
        fn()
        return True
    except (AttributeError, KeyError, ImportError) as e:
        LOG.counters['internal_hooks_unavailable'] += 1
        LOG.notes.append('internal hooks unavailable: ' + fmt_exc(e))
        return False


def assert_repo(root='/repo'):
    """The code being monitored must be the working tree of /repo (or the
    tree named by VMON_REPO for mutant validation on scratch copies)."""
    import os
    import pyModelChecking
    root = os.environ.get('VMON_REPO', root)
    path = os.path.realpath(pyModelChecking.__file__)
    if not path.startswith(os.path.realpath(root) + os.sep):
        raise SystemExit('pyModelChecking imported from %s, not under %s'
                         % (path, root))
    return path


def fmt_exc(e):
    return '%s: %s' % (type(e).__name__, str(e)[:300])


def short_tb(e):
    tb = traceback.extract_tb(e.__traceback__)
    return ['%s:%d %s' % (fr.filename.split('/')[-1], fr.lineno, fr.name)
            for fr in tb[-6:]]
