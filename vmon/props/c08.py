"""C08 -- formula objects always belong to their logic; out-of-logic input is
rejected.

Monitors on the real construction/cast/model-checking entry points:
 c08.construct   wrapper on wrap_subformulas (the single funnel every operator
                 constructor goes through): when it returns, the operator tree
                 of the object just built must be a formula of the object's
                 own language module (reflang); when it raises, TypeError
 c08.cast        wrapper on cast_to: the result has the same tree, belongs to
                 the target language and lives in the target module; failures
                 are TypeError
 c08.modelcheck  every modelcheck call whose formula is outside the logic, is
                 a path formula, or whose structure is not a Kripke must raise
                 TypeError, never return
"""

import itertools
import sys

from .. import mon, mcwrap, gen, reflang, mcwork
from ..mon import LOG
from ..neutral import (show, build, lang, tree_of, module_set, CLS, OPS,
                       NeutralError, count_ops)

PROP = 'C08'
LANGS = ('PL', 'CTL', 'LTL', 'CTLS')

CONFIG = {
    'technique': ('runtime monitor: wrappers on wrap_subformulas, cast_to and '
                  'the three modelcheck functions classify every object built '
                  'or accepted with a syntactic classifier written from the '
                  'documented grammars'),
    'level_text': ('Every construction, cast and model-checking attempt '
                   'observed while building all operator trees of depth <=2 '
                   '(sampled at depth 3 in quick, much larger sample in '
                   'thorough) in each of the four languages -- from raw '
                   'leaves and from children of every other language -- is '
                   'judged: success only for trees of the target logic, '
                   'TypeError otherwise.'
                   ' Also (round 6): quantified/temporal cores hidden in tautological or absorbing contexts, offered to all three checkers.'),
    'level_note': ('Trusted base: vmon/reflang.py (documented definitions of '
                   'PL, CTL, LTL, CTL*). Rejecting an in-logic tree is not a '
                   'violation of this property (counted as a diagnostic). '
                   'Arity abuse and non-formula operands are outside the '
                   'quantifier.'),
    'deciding': ['c08.construct', 'c08.cast', 'c08.modelcheck'],
    'shards': {'quick': 16, 'thorough': 16},
    'hashseeds': {'quick': 2, 'thorough': 2},
    'min_evals': {'quick': {'c08.construct': 100000, 'c08.cast': 20000,
                            'c08.modelcheck': 10000},
                  'thorough': {'c08.construct': 1000000}},
    'must_sig': ['tree:hidden_core', 'construct:accepted:CTL', 'construct:accepted:LTL',
                 'construct:accepted:CTLS', 'construct:accepted:PL',
                 'construct:rejected:CTL', 'construct:rejected:LTL',
                 'construct:rejected:PL', 'cast:accepted', 'cast:rejected',
                 'mc:rejected_out_of_logic', 'mc:rejected_path_formula',
                 'mc:rejected_non_kripke', 'mc:accepted',
                 'children:foreign', 'children:two_languages', 'cast:chain'],
    'rule': ('cases = (operator tree, target language, how the children were '
             'obtained); trees: all trees of depth <=2 over {not,and,or,'
             'imply,A,E,X,F,G,U,R} with leaves {p,true} (n-ary and/or with '
             'arity 2 and, with at most one non-leaf operand, 3), a seeded '
             'sample of depth 3; each built in PL/CTL/LTL/CTLS from raw '
             'leaves and with children built in each other language; '
             'cast_to for all ordered language pairs; every built object '
             'offered to the three modelcheck functions. non-trivial = the '
             'tree is a formula of some but not all four languages; distinct '
             'by digest of (tree, target, source)'),
    'exhaustive': {'quick': True, 'thorough': True},
    'exhaustive_note': 'all trees of depth <=2 (ternary and/or restricted)',
    'assumptions': ['operator arities are respected and leaves are str/bool '
                    'or formula objects'],
}

_depth = [0]


def _lname(obj):
    m = type(obj).__module__
    parts = m.split('.')
    if len(parts) >= 3:
        return parts[1]
    return 'BASE'


def _judge_built(self, err, site):
    logic = _lname(self)
    if logic not in LANGS:
        return
    LOG.hit('c08.construct', site)
    if err is not None:
        LOG.sig['construct:rejected:' + logic] += 1
        if not isinstance(err, TypeError):
            LOG.violation('c08.construct', PROP,
                          {'logic': logic, 'class': type(self).__name__},
                          'raised ' + mon.fmt_exc(err), 'TypeError',
                          note='construction failed with a non-TypeError',
                          extra={'tb': mon.short_tb(err)})
        return
    try:
        t = tree_of(self)
    except NeutralError as e:
        LOG.violation('c08.construct', PROP,
                      {'logic': logic, 'class': type(self).__name__},
                      'object with a non-formula child: %s' % e,
                      'a formula of ' + logic, note='not a formula tree')
        return
    LOG.sig['construct:accepted:' + logic] += 1
    if not reflang.well_formed(t):
        LOG.counters['c08.arity_abuse'] += 1
        return
    if not reflang.in_language(t, logic):
        LOG.violation('c08.construct', PROP,
                      {'logic': logic, 'tree': t, 'shown': show(t),
                       'class': type(self).__name__, 'site': site},
                      'constructed', 'TypeError',
                      note='object of %s whose tree is not a %s formula'
                           % (logic, logic),
                      extra={'finding': classify(logic, t, self)})
    k = reflang.kinds(t)
    inl = [l for l in LANGS if reflang.in_language(t, l)]
    if 0 < len(inl) < 4:
        LOG.mark_nontrivial(('c', t, logic))


def classify(logic, t, obj):
    from .. import defects
    return defects.c08_classify(logic, t, obj)


def _wrap_wsf(orig):
    def wrap_subformulas(self, subformulas, FormulaClass):
        site = mon.caller_site(3)
        err = None
        try:
            orig(self, subformulas, FormulaClass)
        except BaseException as e:
            err = e
        _judge_built(self, err, site)
        if err is not None:
            raise err
    return wrap_subformulas


def _wrap_cast(orig):
    def cast_to(self, Lang):
        outer = _depth[0] == 0
        _depth[0] += 1
        err = None
        out = None
        try:
            out = orig(self, Lang)
        except BaseException as e:
            err = e
        finally:
            _depth[0] -= 1
        if outer:
            _judge_cast(self, Lang, out, err)
        if err is not None:
            raise err
        return out
    return cast_to


def _judge_cast(self, Lang, out, err):
    target = Lang.__name__.split('.')[-1]
    if target not in LANGS:
        return
    LOG.hit('c08.cast')
    try:
        t = tree_of(self)
    except Exception:
        return
    case = {'source': _lname(self), 'target': target, 'tree': t,
            'shown': show(t)}
    if err is not None:
        LOG.sig['cast:rejected'] += 1
        if not isinstance(err, TypeError):
            LOG.violation('c08.cast', PROP, case,
                          'raised ' + mon.fmt_exc(err), 'TypeError',
                          note='cast failed with a non-TypeError')
        return
    LOG.sig['cast:accepted'] += 1
    try:
        t2 = tree_of(out)
    except Exception:
        LOG.violation('c08.cast', PROP, case, repr(out)[:200], 'a formula',
                      note='cast result is not a formula')
        return
    if t2 != t:
        LOG.violation('c08.cast', PROP, case, show(t2), show(t),
                      note='cast changed the structure of the formula')
    elif reflang.well_formed(t) and not reflang.in_language(t, target):
        LOG.violation('c08.cast', PROP, case, 'cast succeeded', 'TypeError',
                      note='cast result is not a %s formula' % target,
                      extra={'finding': classify(target, t, out)})
    else:
        mods = module_set(out)
        want = 'pyModelChecking.%s.language' % target
        # CTL and LTL objects ARE CTL* objects (sub-logics, subclasses)
        allowed = {want}
        if target == 'CTLS':
            allowed |= {'pyModelChecking.CTL.language',
                        'pyModelChecking.LTL.language'}
        if not mods <= allowed:
            LOG.violation('c08.cast', PROP, case, sorted(mods), [want],
                          note='cast result has nodes outside the target '
                               'language module')
    LOG.mark_nontrivial(('k', t, _lname(self), target))


def judge_mc(c):
    if c.nested:
        return
    is_kripke = c.nk is not None and \
        type(c.kripke).__name__ == 'Kripke'
    t = c.denoted()
    if c.text is not None or t is None or not reflang.well_formed(t):
        if not is_kripke:
            LOG.hit('c08.modelcheck')
            LOG.sig['mc:rejected_non_kripke' if isinstance(
                c.raised, TypeError) else 'mc:non_kripke_other'] += 1
            if not isinstance(c.raised, TypeError):
                LOG.violation('c08.modelcheck', PROP,
                              {'logic': c.logic, 'kripke': repr(c.kripke)[:80],
                               'formula': c.text or repr(c.formula)[:80]},
                              'returned' if c.raised is None else
                              mon.fmt_exc(c.raised), 'TypeError',
                              note='non-Kripke accepted / wrong exception')
        return
    ok = reflang.checkable(t, c.logic)
    LOG.hit('c08.modelcheck')
    case = {'logic': c.logic, 'tree': t, 'shown': show(t),
            'formula_module': sorted(module_set(c.formula))
            if not isinstance(c.formula, (str, bool)) else None,
            'kripke': 'Kripke' if is_kripke else repr(c.kripke)[:60]}
    if ok and is_kripke:
        LOG.sig['mc:accepted' if c.raised is None else
                'mc:in_logic_rejected'] += 1
        if c.raised is not None and not isinstance(c.raised, TypeError):
            LOG.violation('c08.modelcheck', PROP, case,
                          'raised ' + mon.fmt_exc(c.raised),
                          'a set or TypeError',
                          note='in-logic formula raised a non-TypeError')
        return
    if not is_kripke:
        why = 'mc:rejected_non_kripke'
    elif reflang.in_language(t, c.logic) or (
            c.logic == 'LTL' and 'LTL.path' in reflang.kinds(t)):
        why = 'mc:rejected_path_formula'
    else:
        why = 'mc:rejected_out_of_logic'
    if isinstance(c.raised, TypeError):
        LOG.sig[why] += 1
    else:
        LOG.violation('c08.modelcheck', PROP, case,
                      ('returned %r' % (c.result,))[:200]
                      if c.raised is None else
                      'raised ' + mon.fmt_exc(c.raised), 'TypeError',
                      note=why.replace('mc:rejected_', 'not rejected: '),
                      extra={'finding': defects_mc(c, t, why)})
    LOG.mark_nontrivial(('m', t, c.logic, is_kripke))


def defects_mc(c, t, why):
    from .. import defects
    return defects.c08_classify_mc(c.logic, t, why, c)


def attach():
    mcwrap.attach()

    def do():
        import pyModelChecking.CTL
        import pyModelChecking.LTL
        import pyModelChecking.CTLS
        import pyModelChecking.PL.language as pl
        import pyModelChecking.language as base
        for cls in (pl.Formula, base.Formula):
            orig = cls.__dict__['wrap_subformulas']
            setattr(cls, 'wrap_subformulas', _wrap_wsf(orig))
        orig = pl.Formula.__dict__['cast_to']
        pl.Formula.cast_to = _wrap_cast(orig)
        # cast_to recurses through Formula.cast_to(subformula, Lang): the
        # class attribute, so the wrapper sees the recursion (depth counter)
        m = sys.modules['pyModelChecking.CTLS.model_checking']
        m.print = lambda *a, **k: None       # CTLS.modelcheck prints errors
        return True
    mon.attach_once('c08', do)
    if judge_mc not in mcwrap.judges:
        mcwrap.judges.append(judge_mc)


# ---- workload ----

UNARY = ('not', 'A', 'E', 'X', 'F', 'G')
BINARY = ('and', 'or', 'imply', 'U', 'R')
LEAVES = (('ap', 'p'), ('bool', True))


def trees_depth(maxd):
    """All trees of depth <= maxd (ternary and/or with <=1 non-leaf child)."""
    levels = [list(LEAVES)]
    allt = list(LEAVES)
    for d in range(1, maxd + 1):
        new = []
        for a in allt:
            for op in UNARY:
                new.append((op, a))
        for a in allt:
            for b in allt:
                for op in BINARY:
                    new.append((op, a, b))
        for op in ('and', 'or'):
            for pos in range(3):
                for a in allt:
                    for l1 in LEAVES:
                        for l2 in LEAVES:
                            kids = [l1, l2]
                            kids.insert(pos, a)
                            new.append((op,) + tuple(kids))
        seen = set(allt)
        for t in new:
            if t not in seen:
                seen.add(t)
                allt.append(t)
    return allt


def random_tree(r, depth):
    if depth == 0 or r.random() < 0.1:
        return r.choice(LEAVES + (('ap', 'q'), ('bool', False)))
    k = r.random()
    if k < 0.45:
        return (r.choice(UNARY), random_tree(r, depth - 1))
    if k < 0.9:
        return (r.choice(BINARY), random_tree(r, depth - 1),
                random_tree(r, depth - 1))
    return (r.choice(('and', 'or')), random_tree(r, depth - 1),
            random_tree(r, depth - 1), random_tree(r, depth - 1))


_built = {}


def try_build(logic, t, raw):
    try:
        return build(lang(logic), t, raw_leaves=raw)
    except TypeError:
        return None
    except Exception:
        return None      # recorded by the construct monitor


_K = [None]
_nonK = []


def offer_to_checkers(obj, i):
    from pyModelChecking import CTL, LTL, CTLS
    from pyModelChecking.kripke import Kripke
    from pyModelChecking.graph import DiGraph
    if _K[0] is None:
        _K[0] = Kripke(R=[(0, 1), (1, 1), (1, 0)], L={0: {'p'}, 1: {'q'}})
        _nonK.extend([DiGraph(E=[(0, 0)]), None, {'S': [0]}, 'K', 42])
    # the LTL tableau is exponential in the temporal operators: formulas that
    # the LTL / CTL* checkers would *accept* are only offered when small
    # (rejections are immediate whatever the size)
    try:
        nt = count_ops(tree_of(obj), ('X', 'F', 'G', 'U', 'R'))
    except Exception:
        nt = 0
    for L in (CTL, LTL, CTLS):
        if L is not CTL and nt > 3:
            LOG.counters['c08.mc_skipped_large'] += 1
            continue
        try:
            L.modelcheck(_K[0], obj)
        except Exception:
            pass
    if i % 40 == 0 and nt <= 3:
        for L in (CTL, LTL, CTLS):
            try:
                L.modelcheck(_nonK[(i // 40) % len(_nonK)], obj)
            except Exception:
                pass


def drive(t, i, with_mc=True):
    objs = {}
    for logic in LANGS:
        o = try_build(logic, t, raw=(i % 2 == 0))
        if o is not None:
            objs[logic] = o
    # children from every other language
    if t[0] not in ('ap', 'bool'):
        for src in LANGS:
            kids = [try_build(src, c, raw=False) for c in t[1:]]
            if any(k is None for k in kids):
                continue
            for dst in LANGS:
                if dst == src:
                    continue
                LOG.sig['children:foreign'] += 1
                try:
                    getattr(lang(dst), CLS[t[0]])(*kids)
                except Exception:
                    pass
    # children taken from TWO different other languages in one constructor
    if len(t) >= 3 and t[0] not in ('ap', 'bool') and i % 3 == 0:
        for s1 in LANGS:
            for s2 in LANGS:
                if s1 == s2:
                    continue
                kids = []
                for ci, c in enumerate(t[1:]):
                    kids.append(try_build(s1 if ci % 2 == 0 else s2, c,
                                          raw=False))
                if any(k is None for k in kids):
                    continue
                for dst in LANGS:
                    LOG.sig['children:two_languages'] += 1
                    try:
                        getattr(lang(dst), CLS[t[0]])(*kids)
                    except Exception:
                        pass
    for src, o in objs.items():
        for dst in LANGS:
            if dst != src:
                try:
                    o2 = o.cast_to(lang(dst))
                    # cast chains through a third language and back
                    if i % 5 == 0:
                        for third in LANGS:
                            if third not in (src, dst):
                                LOG.sig['cast:chain'] += 1
                                try:
                                    o2.cast_to(lang(third)).cast_to(lang(src))
                                except Exception:
                                    pass
                except Exception:
                    pass
        if with_mc:
            offer_to_checkers(o, i)
    if i % 3001 == 0:
        LOG.sample({'tree': show(t), 'constructible_in': sorted(objs)})


def hidden_trees():
    """A quantified / temporal core placed where a simplifier could make it
    vanish before membership is checked: x or not x, x and not x, x -> x,
    true or x, false and x, x or x, not not x -- bare and under A, E, A G,
    A X, not.  Whether the whole belongs to a logic is decided by its
    syntax, never by its truth value."""
    p, q, T, Fa = ('ap', 'p'), ('ap', 'q'), ('bool', True), ('bool', False)
    cores = [('E', ('X', p)), ('A', ('F', p)), ('E', ('U', p, q)),
             ('A', ('G', ('E', ('F', q)))), ('X', p), ('F', ('G', p)),
             ('U', p, ('X', q)), ('E', ('F', ('G', p))),
             ('A', ('or', ('X', p), ('G', q))), ('E', p), ('A', ('not', p)),
             ('G', ('E', ('X', p)))]
    hide = [lambda x: ('or', x, ('not', x)),
            lambda x: ('or', ('not', x), x),
            lambda x: ('and', x, ('not', x)),
            lambda x: ('imply', x, x),
            lambda x: ('or', T, x),
            lambda x: ('or', x, T),
            lambda x: ('and', Fa, x),
            lambda x: ('and', x, Fa),
            lambda x: ('imply', Fa, x),
            lambda x: ('imply', x, T),
            lambda x: ('or', x, x),
            lambda x: ('and', x, x),
            lambda x: ('not', ('not', x)),
            lambda x: ('or', p, x, ('not', x)),
            lambda x: ('and', ('not', x), q, x)]
    outer = [lambda y: y,
             lambda y: ('A', y),
             lambda y: ('E', y),
             lambda y: ('not', y),
             lambda y: ('A', ('G', y)),
             lambda y: ('A', ('X', y)),
             lambda y: ('A', ('U', p, y)),
             lambda y: ('E', ('F', y)),
             lambda y: ('and', p, y),
             lambda y: ('A', ('or', ('F', q), y))]
    out = []
    for x in cores:
        for h in hide:
            for o in outer:
                out.append(o(h(x)))
    return out


def run(ctx):
    attach()
    r = gen.rng(ctx.seed, PROP, 'main')
    for i, t in enumerate(hidden_trees()):
        if ctx.mine(i):
            LOG.sig['tree:hidden_core'] += 1
            drive(t, 4 * i, with_mc=True)
    T2 = trees_depth(2)
    for i, t in enumerate(T2):
        if ctx.mine(i):
            drive(t, i, with_mc=(i % 4 == 0 or len(t) == 2))
    n3 = 6000 if ctx.quick else 300000
    for k in range(n3):
        t = random_tree(r, 3 if k % 5 else 4)
        if ctx.mine(k):
            drive(t, k, with_mc=(k % 6 == 0))
    LOG.counters['trees_depth<=2'] = len(T2)


def replay(ctx, rep):
    attach()
    from ..mcwork import to_tuple
    c = rep['case']
    t = to_tuple(c['tree'])
    drive(t, 0)
    drive(t, 1)
