"""C09 -- printing then parsing a formula gives back the same formula;
printing is injective.

 c09.roundtrip  relation monitor over (str(f), Parser()(str(f))): the parsed
                object has exactly f's tree (compared structurally by the
                harness, never with ==) and all its nodes live in the logic's
                own module.  CTL formulas are printed in CTL* notation
                (str(f.cast_to(CTLS))) and read back by both the CTL* and the
                CTL parser.
 c09.injective  history monitor: a table printed form -> tree per logic; a
                second, different tree for a known printed form is a violation
 c09.parse      (counter) every Parser.__call__ made, via a wrapper on the
                real method
"""

import sys

from .. import mon, gen, reflang
from ..mon import LOG
from ..neutral import (show, build, lang, tree_of, module_set, rename_atoms,
                       NeutralError, height)

PROP = 'C09'
LANGS = ('PL', 'LTL', 'CTLS', 'CTL')

CONFIG = {
    'technique': ('runtime relation monitor over the real printers and Lark '
                  'parsers: structural comparison of Parser()(str(f)) with f, '
                  'plus a history table detecting two trees with one printed '
                  'form'),
    'level_text': ('For every generated formula of PL, LTL, CTL* and CTL '
                   '(all formulas of depth <=2 over 4 leaves, n-ary and/or of '
                   'arity 2-4, atom names that look like operators, random '
                   'formulas to depth 5) the printed form is parsed back and '
                   'compared node by node; printed forms are recorded to '
                   'detect non-injective printing.'),
    'level_note': ('Trusted base: neutral.tree_of (walks class names and '
                   'child lists). Atom names are non-reserved identifiers as '
                   'the property states.'),
    'deciding': ['c09.roundtrip', 'c09.injective'],
    'shards': {'quick': 16, 'thorough': 16},
    'hashseeds': {'quick': 2, 'thorough': 2},
    'min_evals': {'quick': {'c09.roundtrip': 60000, 'c09.injective': 60000,
                            'c09.parse': 60000},
                  'thorough': {'c09.roundtrip': 500000}},
    'must_sig': ['logic:PL', 'logic:LTL', 'logic:CTLS', 'logic:CTL',
                 'ctl:via_ctl_parser', 'arity:3', 'arity:4', 'depth:>=4',
                 'atoms:dangerous', 'cross:sublogic_to_CTLS'],
    'rule': ('cases = (logic, formula tree, atom naming); enumerated: all '
             'formulas of depth <=2 of each logic over {p,q,true,false} '
             '(quick: depth 2 capped by a seeded sample per level), each '
             'under a rotating renaming onto dangerous-looking identifiers '
             '(Xa, Ab, trueish, U2, _z, not_p, ...); n-ary and/or of arity '
             '3-4; random formulas to depth 5. non-trivial = the formula has '
             'depth >=2 (so parenthesisation matters); distinct by digest of '
             '(logic, tree)'),
    'exhaustive': {'quick': False, 'thorough': True},
    'exhaustive_note': ('thorough: every formula of depth <=2 over '
                        '{p,q,true,false} in PL, LTL, CTL*, CTL'),
    'assumptions': ['atom names match [a-zA-Z_][a-zA-Z_0-9]* and are not '
                    'reserved words'],
}

DANGEROUS = ['Xa', 'Ab', 'trueish', 'U2', '_z', 'not_p', 'Fa', 'G1', 'Ra',
             'Ep', 'orx', 'andy', 'falsehood', 'AX', 'EF', 'AG', 'Until',
             'x', 'TRUE', 'False', 'NOT', 'A_', 'notp', 'p_or_q', 'XX',
             '_', '__', '_1', 'a_1_2', 'p01', 'p1', 'P1', 'a__', 'z9_',
             'an_atomic_proposition_with_a_very_long_name_of_61_characters_',
             'A' * 45, 'x' + '_' * 41, 'q' + '0123456789' * 5, 'True', 'tRue',
             'E_', 'U_', 'R2D2', 'Gg', 'Ff', 'Xx']

_tables = {l: {} for l in LANGS}
_parsers = {}


def _wrap_call(orig):
    def __call__(self, string):
        LOG.hit('c09.parse')
        return orig(self, string)
    return __call__


def attach():
    def do():
        import pyModelChecking.CTL
        import pyModelChecking.LTL
        import pyModelChecking.CTLS
        import pyModelChecking.PL
        import pyModelChecking.parser as bp
        orig = bp.Parser.__dict__['__call__']
        bp.Parser.__call__ = _wrap_call(orig)
        return True
    return mon.attach_once('c09', do)


def parser(logic):
    if logic not in _parsers:
        _parsers[logic] = lang(logic).Parser()
    return _parsers[logic]


def check_parse(logic, via, s, t, case):
    """Parse s with parser `via`; result must have tree t, nodes in via."""
    LOG.hit('c09.roundtrip')
    try:
        g = parser(via)(s)
    except Exception as e:
        LOG.violation('c09.roundtrip', PROP, case,
                      'parser %s raised %s' % (via, mon.fmt_exc(e)),
                      show(t), note='printed form is not parsable',
                      extra={'printed': s})
        return
    try:
        t2 = tree_of(g)
    except NeutralError as e:
        LOG.violation('c09.roundtrip', PROP, case, repr(g)[:200], show(t),
                      note='parser returned a non-formula',
                      extra={'printed': s})
        return
    if t2 != t:
        LOG.violation('c09.roundtrip', PROP, case, show(t2), show(t),
                      note='parsed tree differs from the printed formula',
                      extra={'printed': s, 'parsed_tree': t2})
        return
    mods = module_set(g)
    want = 'pyModelChecking.%s.language' % via
    if mods != {want}:
        LOG.violation('c09.roundtrip', PROP, case, sorted(mods), [want],
                      note='parsed formula has nodes outside the logic\'s '
                           'module', extra={'printed': s})


def drive(logic, t, i):
    L = lang(logic)
    try:
        f = build(L, t, raw_leaves=(i % 2 == 1))
    except Exception as e:
        LOG.counters['c09.unbuildable'] += 1
        return
    LOG.sig['logic:' + logic] += 1
    case = {'logic': logic, 'tree': t, 'shown': show(t)}
    try:
        if logic == 'CTL':
            s = str(f.cast_to(lang('CTLS')))
        else:
            s = str(f)
    except Exception as e:
        LOG.hit('c09.roundtrip')
        LOG.violation('c09.roundtrip', PROP, case,
                      'printing raised ' + mon.fmt_exc(e), 'a string',
                      note='cannot print')
        return
    if logic == 'CTL':
        check_parse(logic, 'CTLS', s, t, case)
        check_parse(logic, 'CTL', s, t, case)
        LOG.sig['ctl:via_ctl_parser'] += 1
        tab = _tables['CTLS']
    else:
        check_parse(logic, logic, s, t, case)
        tab = _tables[logic]
    if logic in ('PL', 'LTL') and i % 3 == 0:
        # a formula of a sub-logic, printed there, read by the CTL* parser
        LOG.sig['cross:sublogic_to_CTLS'] += 1
        check_parse(logic, 'CTLS', s, t, dict(case, via='CTLS parser'))
    LOG.hit('c09.injective')
    prev = tab.get(s)
    if prev is None:
        tab[s] = t
    elif prev != t:
        LOG.violation('c09.injective', PROP, case, s,
                      'distinct printed forms',
                      note='two different trees print identically',
                      extra={'other_tree': prev, 'other_shown': show(prev)})
    if height(t) >= 2:
        LOG.mark_nontrivial((logic, t))
    if height(t) >= 4:
        LOG.sig['depth:>=4'] += 1
    if i % 4001 == 0:
        LOG.sample({'logic': logic, 'formula': show(t), 'printed': s})


def renaming(i):
    a = DANGEROUS[i % len(DANGEROUS)]
    b = DANGEROUS[(i * 7 + 3) % len(DANGEROUS)]
    if a == b:
        b = DANGEROUS[(i * 7 + 4) % len(DANGEROUS)]
    return {'p': a, 'q': b}


def nary_family(logic, r, n):
    out = []
    base = gen.enum_lang(logic, 1)
    if logic == 'LTL':
        base = [t for t in base if t[0] != 'A']
    for _ in range(n):
        k = r.choice([3, 4])
        op = r.choice(['and', 'or'])
        t = (op,) + tuple(r.choice(base) for _ in range(k))
        LOG.sig['arity:%d' % k] += 0
        out.append((k, t))
    return out


def run(ctx):
    attach()
    r = gen.rng(ctx.seed, PROP, 'main')
    i = 0
    for logic in LANGS:
        if ctx.quick:
            fs = gen.enum_lang(logic, 2, cap=40000,
                               r=gen.rng(ctx.seed, PROP, logic))
        else:
            fs = gen.enum_lang(logic, 2)
        for t in fs:
            if ctx.mine(i):
                drive(logic, t, i)
                if i % 3 == 0:
                    LOG.sig['atoms:dangerous'] += 1
                    drive(logic, rename_atoms(t, renaming(i)), i)
            i += 1
        for k, t in nary_family(logic, r, 400 if ctx.quick else 5000):
            if ctx.mine(i):
                LOG.sig['arity:%d' % k] += 1
                drive(logic, rename_atoms(t, renaming(i)), i)
            i += 1
    nrand = 30000 if ctx.quick else 300000
    for k in range(nrand):
        logic = LANGS[k % 4]
        t = gen.random_lang(r, logic, r.randint(3, 5),
                            atoms=tuple(r.sample(DANGEROUS, 3)))
        if ctx.mine(k):
            drive(logic, t, k)
    LOG.counters['printed_forms_recorded'] = sum(len(v)
                                                 for v in _tables.values())


def replay(ctx, rep):
    attach()
    from ..mcwork import to_tuple
    c = rep['case']
    t = to_tuple(c['tree'])
    if 'other_tree' in rep:
        drive(c['logic'], to_tuple(rep['other_tree']), 0)
    drive(c['logic'], t, 0)
    drive(c['logic'], t, 1)
