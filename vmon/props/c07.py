"""C07 -- model checking is a pure function of its arguments.

Deciding monitors, evaluated on every top-level modelcheck call of the three
logics (with/without F, text/object formulas), also when the call raises:
 c07.structure  deep snapshot of the caller's Kripke structure (states,
                transitions, every label set *and the identity of each label-
                set / successor-set object*, S0, attribute names) is the same
                before and after the call
 c07.formula    the formula object's tree is the same before and after
 c07.history    a table case -> first outcome; every later execution of the
                same case anywhere in the history has an equal outcome
 c07.modstate   (diagnostic) no module-level container of the three
                model_checking modules grows across a call
"""

import sys

from .. import mon, mcwrap, reflang, gen, probes, mcwork
from ..mon import LOG
from ..neutral import (show, NK, snapshot_diff, same_structure, build,
                       lang)

PROP = 'C07'

CONFIG = {
    'technique': ('runtime monitor: before/after deep snapshots (values and '
                  'object identities) around every modelcheck call, incl. '
                  'raising calls; history table of first outcomes per case '
                  'over random interleavings'),
    'level_text': ('Random histories of interleaved CTL/LTL/CTLS modelcheck '
                   'calls over a pool of structures and formulas (text and '
                   'object, with and without fairness constraints, structures '
                   'dropped and re-created so ids are reused) are executed; '
                   'every call is checked for leaving its arguments untouched '
                   'and for returning what the same case returned before.'
                   ' The pools are drawn from one catalogue, so first outcomes'
                   ' are also compared across histories and across worker'
                   ' processes started with the same hash seed; nested calls are'
                   ' checked for purity too.'
                   ' Also (round 6): related fairness families on one structure (merged, split, duplicated, reversed constraint lists).'),
    'level_note': ('Trusted base: neutral.deep_snapshot; the history table '
                   'keys cases by their neutral form. Only observed '
                   'histories are covered.'),
    'deciding': ['c07.structure', 'c07.formula', 'c07.history'],
    'shards': {'quick': 16, 'thorough': 16},
    'hashseeds': {'quick': 2, 'thorough': 4},
    'min_evals': {'quick': {'c07.structure': 8000, 'c07.history': 8000,
                            'c07.formula': 4000},
                  'thorough': {'c07.structure': 300000}},
    'must_sig': ['call:CTL', 'call:LTL', 'call:CTLS', 'with_F', 'without_F',
                 'text', 'object', 'history:repeat', 'raised',
                 'ctls:nested_quantifier', 'recreated_structure'],
    'rule': ('cases = histories: sequences of 200 modelcheck calls drawn '
             'from a per-history pool of 12 structures x 15 formulas x '
             '{F=None, F=[...]} x {text, object} x 3 logics, interleaved at '
             'random, with structures dropped and re-created in between. '
             'non-trivial = a call whose case was executed earlier in the '
             'same history with >=1 other call in between (the history '
             'monitor has something to compare) or a call that adds fresh '
             'labels/fair labels internally (CTL* with quantifier, or F '
             'given); distinct = distinct (history id, position) of such '
             'calls'),
    'exhaustive': {'quick': False, 'thorough': False},
    'assumptions': ['purity is judged at the API boundary of top-level calls; '
                    'nested calls work on the clone by design'],
}

_hist = {}
_seed = [0]
_cur_key = [None]
_hist_id = [0]
_pos = [0]
_modstate_mods = []


def _outcome(c):
    if c.raised is not None:
        return 'raise:' + type(c.raised).__name__
    if c.result_bad:
        return 'bad:' + c.result_bad
    return c.result_mask


def _modsizes():
    out = {}
    for m in _modstate_mods:
        for k, v in m.__dict__.items():
            if isinstance(v, (dict, list, set)) and not k.startswith('__'):
                out['%s.%s' % (m.__name__, k)] = len(v)
    return out


_before_mod = [None]


def judge_nested(c):
    """Nested calls (CTLS -> CTL/LTL on the clone) must not touch their own
    arguments either: the caller keeps labelling that clone between calls."""
    if not c.nested or c.nk is None:
        return
    LOG.hit('c07.structure_nested', c.site)
    if not same_structure(c.pre, c.post):
        diff = snapshot_diff(c.pre, c.post or {})
        LOG.violation('c07.structure', PROP, c.case(), {'changed': diff},
                      'structure unchanged',
                      note='a nested modelcheck call changed the structure '
                           'it was given: ' + ', '.join(diff))
    if c.text is None and c.tree is not None and c.tree_after != c.tree:
        LOG.violation('c07.formula', PROP, c.case(),
                      show(c.tree_after) if c.tree_after else None,
                      show(c.tree), note='nested call modified its formula')


def judge(c):
    if c.nested or c.nk is None:
        return
    LOG.sig['call:' + c.logic] += 1
    LOG.sig['with_F' if c.F is not None else 'without_F'] += 1
    LOG.sig['text' if c.text is not None else 'object'] += 1
    if c.raised is not None:
        LOG.sig['raised'] += 1
    # structure purity
    LOG.hit('c07.structure', c.site)
    if not same_structure(c.pre, c.post):
        diff = snapshot_diff(c.pre, c.post or {})
        LOG.violation('c07.structure', PROP, c.case(),
                      {'changed': diff,
                       'labels_after': {repr(k): sorted(map(repr, v))
                                        for k, v in
                                        (c.post or {}).get('labels',
                                                           {}).items()}},
                      'structure unchanged',
                      note='the caller\'s Kripke structure changed: ' +
                           ', '.join(diff))
    # formula purity
    if c.text is None and c.tree is not None:
        LOG.hit('c07.formula', c.site)
        if c.tree_after != c.tree:
            LOG.violation('c07.formula', PROP, c.case(),
                          show(c.tree_after) if c.tree_after else None,
                          show(c.tree), note='formula object was modified')
    # cross-history / cross-process table over the catalogue
    if _cur_key[0] is not None:
        out0 = _outcome(c)
        prev0 = _global.get(_cur_key[0])
        if prev0 is None:
            _global[_cur_key[0]] = out0
        elif prev0 != out0:
            LOG.violation('c07.history', PROP, c.case(), out0, prev0,
                          note='same catalogue case %r gave a different '
                               'outcome in an earlier history of this '
                               'process' % (_cur_key[0],))
    # history
    t = c.denoted()
    key = (c.logic, c.nk.key(), tuple(map(repr, c.nk.states)),
           t if t is not None else c.text,
           tuple(c.Fmasks) if c.Fmasks is not None else repr(c.F))
    out = _outcome(c)
    LOG.hit('c07.history', c.site)
    prev = _hist.get(key)
    if prev is None:
        _hist[key] = (out, _pos[0])
    else:
        LOG.sig['history:repeat'] += 1
        if _pos[0] - prev[1] > 1:
            LOG.mark_nontrivial((_hist_id[0], _pos[0]))
        if prev[0] != out:
            LOG.violation('c07.history', PROP, c.case(),
                          out, prev[0],
                          note='same case gave a different outcome earlier in '
                               'the history (first at position %d, now %d)'
                               % (prev[1], _pos[0]))
    if c.logic == 'CTLS' and t is not None and ("'A'" in repr(t) or
                                                "'E'" in repr(t)):
        LOG.sig['ctls:nested_quantifier'] += 1
        LOG.mark_nontrivial((_hist_id[0], _pos[0]))
    elif c.F is not None:
        LOG.mark_nontrivial((_hist_id[0], _pos[0]))
    # module state (diagnostic)
    ms = _modsizes()
    if _before_mod[0] is not None:
        grown = [k for k in ms if ms[k] > _before_mod[0].get(k, 0)]
        LOG.hit('c07.modstate')
        if grown:
            LOG.violation('c07.modstate', PROP + '-diag', c.case(), grown,
                          'no module-level container grows',
                          note='module-level state changed across a call')
    _before_mod[0] = ms


def attach():
    mcwrap.attach()

    def do():
        for l in ('CTL', 'LTL', 'CTLS'):
            _modstate_mods.append(
                sys.modules['pyModelChecking.%s.model_checking' % l])
        _modstate_mods.append(sys.modules['pyModelChecking.kripke'])
        return True
    mon.attach_once('c07', do)
    for j in (judge, judge_nested):
        if j not in mcwrap.judges:
            mcwrap.judges.append(j)


_catalogue = {}
_global = {}        # catalogue case -> first outcome in this process


def catalogue(seed):
    """One fixed list of structures, formulas and constraint lists per run:
    every history draws its pool from it, so the same case is executed in
    many histories (and in many worker processes) after different calls."""
    c = _catalogue.get(seed)
    if c is not None:
        return c
    r = gen.rng(seed, PROP, 'catalogue')
    structs = []
    bases = []
    for k in range(36):
        if k % 3 == 0:
            nk = gen.random_structure(r, 5, atoms=('p', 'q'), nmin=3)
            bases.append(nk)
        else:
            # a sibling of the last base: same number of states and of
            # transitions, different wiring and labels (anything that keys a
            # cache by size or by a recycled id() confuses them)
            b = bases[-1]
            succ = []
            for i in range(b.n):
                deg = bin(b.succ[i]).count('1')
                m = 0
                for j in r.sample(range(b.n), deg):
                    m |= 1 << j
                succ.append(m)
            nk = NK(range(b.n), succ,
                    [frozenset(a for a in ('p', 'q') if r.random() < 0.5)
                     for _ in range(b.n)])
        labels = [set(l) for l in nk.labels]
        # user labels that collide with names the checkers invent
        if k % 3 == 1:
            for i in range(nk.n):
                if r.random() < 0.5:
                    labels[i].add('fair')
                if r.random() < 0.2:
                    labels[i].add('fair0')
        if k % 4 == 2:
            for nm in ('[E(G(p))]', '[A(F(q))]', '[A(not G(p))]'):
                labels[r.randrange(nk.n)].add(nm)
        nk = NK(range(nk.n), nk.succ, labels)
        names = None
        x = k % 5
        if x == 1:
            names = ['s%d' % i for i in range(nk.n)]
        elif x == 3:
            names = [(i, 'x') for i in range(nk.n)]
        sts = names or list(range(nk.n))
        Fs = [None]
        for _ in range(2):
            Fs.append([set(r.sample(sts, r.randint(1, len(sts))))
                       for _ in range(r.randint(1, 2))])
        # families related to the first two: the same states grouped
        # differently (merged into one constraint, split into singletons),
        # a constraint listed twice as distinct objects, the list reversed.
        # A cache of fair states keyed by anything coarser than the family
        # itself (its union, its length, one of its members) answers one of
        # these with what was computed for another.
        base = Fs[1] if len(Fs[1]) > 1 or len(Fs[1][0]) > 1 else Fs[2]
        u = set().union(*base)
        Fs.append([set(u)])
        Fs.append([{x} for x in sorted(u, key=repr)])
        Fs.append([set(P) for P in base] + [set(base[0])])
        Fs.append([set(P) for P in reversed(base)])
        two = sorted(u, key=repr)
        if len(two) >= 2:
            Fs.append([set(two[:1]), set(two[1:])])
            Fs.append([set(two[:-1]), set(two[-1:])])
        structs.append((nk, names, Fs))
    forms = []
    atoms = ('p', 'q')
    for _ in range(14):
        forms.append(('CTL', gen.random_ctl(r, r.randint(1, 3), atoms)))
    forms += [('CTL', ('E', ('X', ('ap', 'p')))),
              ('CTL', ('A', ('X', ('or', ('ap', 'p'), ('ap', 'q'))))),
              ('CTL', ('E', ('X', ('E', ('X', ('ap', 'q')))))),
              ('CTLS', ('E', ('X', ('ap', 'q')))),
              ('CTLS', ('A', ('X', ('A', ('X', ('ap', 'p')))))),
              ('CTLS', ('A', ('G', ('E', ('X', ('ap', 'p')))))),
              ('CTLS', ('E', ('and', ('X', ('ap', 'p')),
                              ('F', ('A', ('X', ('ap', 'q'))))))),
              ('CTL', ('E', ('G', ('ap', 'p')))),
              ('CTL', ('A', ('F', ('ap', 'q')))),
              ('CTL', ('E', ('F', ('ap', 'fair')))),
              ('CTL', ('and', ('ap', 'fair'), ('E', ('X', ('ap', 'p'))))),
              ('CTL', ('E', ('R', ('ap', 'p'), ('ap', 'q'))))]
    for _ in range(8):
        forms.append(('LTL', ('A', gen.random_ltl_path(
            r, r.randint(1, 2), atoms, max_temporal=3))))
    for _ in range(12):
        forms.append(('CTLS', gen.random_ctls_state(
            r, r.randint(2, 3), atoms, qdepth=2)))
    forms += [('CTLS', ('E', ('F', ('ap', 'fair')))),
              ('CTLS', ('A', ('G', ('E', ('R', ('ap', 'p'), ('ap', 'q')))))),
              ('CTLS', ('E', ('and', ('G', ('F', ('ap', 'p'))),
                              ('F', ('ap', '[E(G(p))]')))))]
    c = (structs, forms)
    _catalogue[seed] = c
    return c


def history(r, hid):
    from pyModelChecking.kripke import Kripke
    _hist.clear()
    _hist_id[0] = hid
    _before_mod[0] = None
    allstructs, allforms = catalogue(_seed[0])
    sidx = r.sample(range(len(allstructs)), 12)
    fidx = r.sample(range(len(allforms)), 18)
    forms = [allforms[i] for i in fidx]
    live = {}
    parsers = {}
    for pos in range(200):
        _pos[0] = pos
        si = r.choice(sidx)
        nk, names, Fs = allstructs[si]
        if si not in live or r.random() < 0.08:
            if si in live:
                LOG.sig['recreated_structure'] += 1
            live[si] = mcwork.kripke_of(nk, names)   # old one is dropped
        K = live[si]
        fi = r.choice(fidx)
        logic, t = allforms[fi]
        # CTL formulas are also valid CTL* formulas
        call_logic = logic
        if logic == 'CTL' and r.random() < 0.3:
            call_logic = 'CTLS'
        L = lang(call_logic)
        Fi = 0 if r.random() < 0.55 else r.randrange(1, len(Fs))
        F = Fs[Fi]
        if F is not None:
            F = [set(P) for P in F]
        quoted = any(not a.replace('_', 'a').isalnum()
                     for a in __import__('vmon.neutral', fromlist=['x'])
                     .atoms_of(t))
        style = 'text' if (r.random() < 0.35 and not quoted) else 'obj'
        f = mcwork.formula_arg(call_logic, t, style)
        _cur_key[0] = (call_logic, si, fi, Fi)
        try:
            if style == 'text':
                if call_logic not in parsers:
                    parsers[call_logic] = L.Parser()
                res = L.modelcheck(K, f, parser=parsers[call_logic], F=F)
            else:
                res = L.modelcheck(K, f, F=F)
            if r.random() < 0.2:
                res.add('__vmon__')          # caller owns the result
        except Exception:
            pass
    _cur_key[0] = None
    if hid % 8 == 0:
        LOG.sample({'history': hid, 'calls': 200,
                    'pool_structures': [allstructs[i][0].to_json()
                                        for i in sidx[:2]],
                    'pool_formulas': [(l, show(t)) for l, t in forms[:6]]})


def run(ctx):
    attach()
    _seed[0] = ctx.seed
    nh = 96 if ctx.quick else 2400
    for h in range(nh):
        if ctx.mine(h):
            history(gen.rng(ctx.seed, PROP, h), h)
    ctx.extra['outcomes'] = {repr(k): v for k, v in _global.items()}


def finalize(reports, ctx):
    """Cross-process history monitor: the same catalogue case, executed by
    different workers after different call histories, has one outcome."""
    seen = {}
    viol = []
    n = 0
    for rep in reports:
        hs = rep.get('hashseed')
        for k0, v in rep['extra'].get('outcomes', {}).items():
            # only processes started with the SAME hash seed are compared:
            # dependence on the hash seed is C06's subject (and, under F, the
            # known finding D4 makes fair sets depend on set iteration order);
            # here the question is dependence on the history of calls
            k = '%s@%s' % (k0, hs)
            n += 1
            if k not in seen:
                seen[k] = (v, rep['shard'])
            elif seen[k][0] != v:
                viol.append({'monitor': 'c07.history', 'property': PROP,
                             'case': {'catalogue_case': k,
                                      'meaning': '(logic, structure index, '
                                                 'formula index, F index) '
                                                 'in c07.catalogue(seed)'},
                             'observed': {'shard %s' % rep['shard']: v},
                             'expected': {'shard %s' % seen[k][1]:
                                          seen[k][0]},
                             'shard': rep['shard'],
                             'replay_shards': [seen[k][1], rep['shard']],
                             'note': 'the same call returned different '
                                     'outcomes in two processes that had '
                                     'made different earlier calls'})
    multi = len([1 for k in seen])
    return {'violations': viol[:50],
            'evals': {'c07.cross_process': n},
            'coverage': {'catalogue_cases_seen': len(seen),
                         'case_executions_compared_across_processes': n}}


def replay(ctx, rep):
    attach()
    # replays re-run the whole history that contained the violating call
    c = rep.get('case', {})
    mcwork.replay_mc(c)
    mcwork.replay_mc(c)
