"""Executable models of *known, open* defects (see known_findings.json).

A violating execution is attributed to an open finding only if the matching
function here says that the observed behaviour is exactly what the defective
mechanism computes on that input.  Everything else stays a VIOLATION.
"""


def c08_classify(logic, t, obj):
    return None


def c08_classify_mc(logic, t, why, call):
    return None


# ==========================================================================
# C15: fairness.  Executable models of the open findings D4, D5, D6, D7.
#
# The fairness code of pyModelChecking reduces a fair query to an
# unconstrained query over a fresh label 'fair'.  The models below are a
# transcription, written for /verif, of what that reduction computes at the
# pinned commit (CTL/language.py and CTLS/language.py
# get_equivalent_non_fair_formula, CTLS/model_checking.py
# _checkQuantifiedFormula, kripke.py is_a_fair_SCC).  They are evaluated with
# the *reference* semantics, so an execution is attributed to a finding only
# when the real code returned exactly what the documented-but-unsound
# mechanism yields on that input.

FAIR = ('ap', '\x00fair')
TRUE = ('bool', True)
BOOLEAN = ('not', 'or', 'and', 'imply')
TEMPORAL = ('X', 'F', 'G', 'U', 'R')


class ModelTypeError(Exception):
    """The modelled code path raises TypeError (finding D5)."""


def m1_fair_states(K, F, compute_SCCs):
    """D4: is_a_fair_SCC tests `len(scc) == 1 or v not in next(v)` with v the
    first node of the SCC as enumerated, i.e. it accepts only SCCs with >= 2
    nodes whose first-enumerated node has a self-loop (and that meet every
    constraint); the fair set is their backward closure."""
    fset = set()
    for scc in compute_SCCs(K):
        scc = list(scc)
        v = scc[0]
        if len(scc) == 1 or v not in K._next[v]:
            continue
        if all(set(scc) & set(P) for P in F):
            fset.update(scc)
    # backward closure
    changed = True
    while changed:
        changed = False
        for s, ds in K._next.items():
            if s not in fset and (ds & fset):
                fset.add(s)
                changed = True
    return fset


def _and_fair(x):
    return ('and', x, FAIR)


# D15 switch: when False, the value of a quantified subformula is NOT
# conjoined with `fair` where it is used as an atom (what a reduction that
# keeps "A g holds vacuously where no fair path starts" would do)
_OPQ_FAIR = [True]


def _opq(x):
    return ('and', x, FAIR) if _OPQ_FAIR[0] else x


def nf_ctl(t, atom=_and_fair):
    """CTL get_equivalent_non_fair_formula, transcribed."""
    op = t[0]
    if op == 'opq':
        return _opq(t[1])
    if op in ('ap', 'bool'):
        return atom(t)
    if op in BOOLEAN:
        return (op,) + tuple(nf_ctl(c, atom) for c in t[1:])
    g = t[1]
    gop = g[0]
    if gop not in TEMPORAL:
        raise ValueError('not CTL-shaped')
    sf0 = nf_ctl(g[1], atom)

    def EX(a): return ('E', ('X', a))

    def EG(a): return ('E', ('G', a))

    def EU(a, b): return ('E', ('U', a, b))

    def AND(a, b): return ('and', a, b)

    def NOT(a): return ('not', a)
    if op == 'A':
        n0 = NOT(sf0)
        if gop == 'X':
            return NOT(EX(AND(n0, FAIR)))
        if gop == 'F':
            return NOT(EG(AND(n0, FAIR)))
        if gop == 'G':
            return NOT(EU(TRUE, AND(n0, FAIR)))
        sf1 = nf_ctl(g[2], atom)
        n1 = NOT(sf1)
        if gop == 'U':
            return NOT(('or', EU(n1, AND(NOT(('or', sf0, sf1)), FAIR)),
                        EG(AND(n1, FAIR))))
        return NOT(EU(n0, AND(n1, FAIR)))            # R
    # E
    if gop == 'X':
        return EX(AND(sf0, FAIR))
    if gop == 'F':
        return EU(TRUE, AND(sf0, FAIR))
    if gop == 'G':
        return EG(AND(sf0, FAIR))
    sf1 = nf_ctl(g[2], atom)
    if gop == 'U':
        return EU(sf0, AND(sf1, FAIR))
    # E(f R g): EU() is called with three arguments -> TypeError (D5)
    raise ModelTypeError('E R under fairness')


def _is_state_level(t):
    op = t[0]
    if op in ('ap', 'bool', 'opq', 'A', 'E'):
        return True
    if op in TEMPORAL:
        return False
    return all(_is_state_level(c) for c in t[1:])


def _prop_over_atoms(t):
    op = t[0]
    if op in ('ap', 'bool', 'opq'):
        return True
    if op in BOOLEAN:
        return all(_prop_over_atoms(c) for c in t[1:])
    return False


def _generic_nf(t):
    """CTLS.Formula.get_equivalent_non_fair_formula on a path formula whose
    quantified subformulas were already replaced: atoms -> atom and fair."""
    op = t[0]
    if op in ('ap', 'bool'):
        return _and_fair(t)
    if op == 'opq':
        return _opq(t[1])
    return (op,) + tuple(_generic_nf(c) for c in t[1:])


def _replace_quantified(g):
    """_remove_state_subformulas on g: maximal quantified subformulas become
    opaque atoms holding the model of their value."""
    op = g[0]
    if op in ('ap', 'bool'):
        return g
    if op in ('A', 'E'):
        return ('opq', vq(g))
    return (op,) + tuple(_replace_quantified(c) for c in g[1:])


def vq(t):
    """Model of CTLS _checkQuantifiedFormula(kripke, Q g, fair_label)."""
    q, g = t
    g1 = _replace_quantified(g)
    if g1[0] in TEMPORAL and all(_prop_over_atoms(c) for c in g1[1:]):
        # castable to CTL: CTL reduction (may raise ModelTypeError for E R)
        return nf_ctl((q, g1))
    sf = _generic_nf(g1)
    if q == 'A':
        return ('A', ('not', ('and', ('not', sf), FAIR)))
    return ('E', ('and', FAIR, sf))


def m_ctls(t, quantified_and_fair=True):
    """Model of CTLS.modelcheck(K, t, F=...) as one unconstrained CTL* tree
    over the label FAIR.  quantified_and_fair=False gives the variant used to
    tell finding D15 from D7 (see known_findings.json)."""
    _OPQ_FAIR[0] = quantified_and_fair
    try:
        return _m_ctls(t)
    finally:
        _OPQ_FAIR[0] = True


def _m_ctls(t):
    op = t[0]
    if op in ('ap', 'bool'):
        return _and_fair(t)
    if op in ('A', 'E'):
        return _opq(vq(t))
    if op in BOOLEAN:
        return (op,) + tuple(_m_ctls(c) for c in t[1:])
    raise ValueError('path formula at state level')


def m_ctl(t):
    return nf_ctl(t)


def contains(t, pred):
    if pred(t):
        return True
    if t[0] in ('ap', 'bool'):
        return False
    return any(contains(c, pred) for c in t[1:])
