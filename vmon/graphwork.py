"""Workload helpers for the graph properties (C12, C13)."""
import itertools

NAMERS = {
    'int': lambda i: i,
    'str': lambda i: 'n%d' % i,
    'longstr': lambda i: 'node_number_%d_with_a_long_name' % (i * 7919),
    'tuple': lambda i: (i, 'x'),
    'frozenset': lambda i: frozenset([i, -i - 1]),
    'mixed': lambda i: [0, 'one', (2,), frozenset([3]), 4.5, 'five', 6,
                        ('seven', 7), 8, 'nine', 10, (11,), 'twelve'][i],
}


def make_digraph(rows, order=None, namer='int', edge_order=None, style=0):
    """Build a real DiGraph. order: node insertion order (indices).
    style 0: DiGraph(V, E); 1: DiGraph(E=...) then add isolated nodes;
    2: empty + add_node/add_edge."""
    from pyModelChecking.graph import DiGraph
    n = len(rows)
    nm = NAMERS[namer]
    if order is None:
        order = list(range(n))
    edges = [(i, j) for i in order for j in range(n) if rows[i] >> j & 1]
    if edge_order == 'rev':
        edges.reverse()
    if style == 0:
        G = DiGraph(V=[nm(i) for i in order],
                    E=[(nm(a), nm(b)) for a, b in edges])
    elif style == 1:
        G = DiGraph(E=[(nm(a), nm(b)) for a, b in edges])
        for i in order:
            if nm(i) not in G.nodes():
                G.add_node(nm(i))
    else:
        G = DiGraph()
        for i in order:
            G.add_node(nm(i))
        for a, b in edges:
            G.add_edge(nm(a), nm(b))
    return G, [nm(i) for i in range(n)]
