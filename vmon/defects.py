"""Executable models of *known, open* defects (see known_findings.json).

A violating execution is attributed to an open finding only if the matching
function here says that the observed behaviour is exactly what the defective
mechanism computes on that input.  Everything else stays a VIOLATION.
"""


def c08_classify(logic, t, obj):
    return None


def c08_classify_mc(logic, t, why, call):
    return None
