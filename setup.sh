#!/bin/sh
# Offline setup: put icontract (and its pure-python deps) beside the repository's
# interpreter, in the git-ignored /verif/.deps.  Idempotent.
set -e
cd "$(dirname "$0")"
if [ ! -d .deps/icontract ]; then
  rm -rf .deps
  PIP_NO_INDEX=1 /venv/bin/pip install --quiet --no-index \
     --find-links /opt/veriftools/wheels --target .deps icontract >/dev/null 2>&1 || {
       echo "setup: offline install of icontract failed" >&2; exit 1; }
fi
PYTHONPATH=.deps /venv/bin/python -c "import icontract" 
echo "setup ok"
