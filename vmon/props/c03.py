"""C03 -- CTL* model checking is exact for arbitrary quantifier/path-operator
nesting.

Deciding monitor c03.modelcheck: every return of CTLS.modelcheck with F=None
and a CTL* state formula is compared with refsem.star on the structure as it
was before the call.  The C01/C02 monitors stay attached as diagnostics, so a
failure is localised: inner CTL/LTL call wrong vs composition wrong.
c03.fresh_atom: the name returned by _get_a_new_atomic_proposition_for is not
already a label of the structure.
"""

import sys

from .. import mon, mcwrap, refsem, reflang, gen, probes, mcwork
from ..mon import LOG
from ..neutral import show, height, NK, count_ops, QUANT
from . import c01, c02

PROP = 'C03'

CONFIG = {
    'technique': ('runtime monitor: postcondition on every CTLS.modelcheck '
                  'return vs a structural-recursion + product-automaton '
                  'reference; inner CTL/LTL calls judged by the C01/C02 '
                  'monitors; fresh-atom hook'),
    'level_text': ('Every return of the real CTLS.modelcheck observed during '
                   'a systematic family of non-CTL CTL* formulas, CTL '
                   'formulas and seeded random CTL* formulas (quantifier '
                   'nesting <=2, <=3 temporal operators per quantifier) on '
                   'small-scope and random structures is judged against '
                   'refsem.star; nested calls are judged separately.'
                   ' Also: labels that spell the fresh-atom names of the'
                   " formula's own quantified subformulas, the same path formula"
                   ' under A and E, n-ary path combinations, three-level'
                   ' quantifier nesting.'),
    'level_note': ('Trusted base: vmon/refsem.py Star (cross-checked with '
                   'refsem.ctl on every CTL-shaped case of the run), neutral '
                   'forms.'),
    'internal_monitors': ['c03.fresh_atom'],
    'deciding': ['c03.modelcheck'],
    'shards': {'quick': 16, 'thorough': 16},
    'hashseeds': {'quick': 8, 'thorough': 16},
    'min_evals': {'quick': {'c03.modelcheck': 15000, 'c03.fresh_atom': 10000,
                            'c03.certificate': 3000},
                  'thorough': {'c03.modelcheck': 300000}},
    'must_sig': ['reach:_checkQuantifiedFormula:return LTL.modelcheck(kripke, formula)',
                 'reach:_checkQuantifiedFormula:formula = LNot(A(LNot(formula.subformula(0))))',
                 'reach:_checkQuantifiedFormula:return CTL.modelcheck(kripke, formula)',
                 "reach:_get_a_new_atomic_proposition_for:f_atom = '[{}({})]'.format(f_str, i)",
                 'shape:nested_quantifier', 'shape:non_ctl', 'shape:ctl',
                 'style:text', 'inner:LTL', 'inner:CTL',
                 'labels:spell_fresh_atoms', 'history:mutation'],
    'rule': ('cases = (Kripke structure, CTL* state formula, presentation '
             'style); a systematic family of ~700 A/E formulas over Boolean/'
             'temporal combinations of depth <=2 and one level of nested '
             'quantifier, all depth-<=1 CTL formulas, and seeded random CTL* '
             'state formulas (depth <=4, quantifier nesting <=2, <=3 '
             'temporal operators per quantifier) on class representatives '
             'with <=2 states (<=3 thorough) and random structures with <=5 '
             'states; labels pre-seeded with fresh-atom look-alikes. '
             'non-trivial = reference answer neither empty nor all states; '
             'distinct = distinct (structure, formula tree) by digest'),
    'exhaustive': {'quick': False, 'thorough': False},
    'assumptions': ['refsem.star is the oracle (its E-verdicts are certified '
                    'by lassos in the C02 check)',
                    'class representatives stand for isomorphic structures'],
}


def judge(c):
    if c.logic != 'CTLS' or c.F is not None or c.nk is None:
        return
    t = c.denoted()
    if t is None or not reflang.well_formed(t) or \
            not reflang.checkable(t, 'CTLS'):
        LOG.counters['c03.out_of_domain'] += 1
        return
    nk = c.nk
    try:
        S = refsem.Star(nk, cap_nodes=1 << 13)
        exp = S.sat(t)
    except refsem.RefSkip:
        LOG.skipped['c03.reference_cap'] += 1
        return
    LOG.hit('c03.modelcheck', c.site)
    if t[0] in ('A', 'E') and c.seq % 3 == 0:
        # keep the oracle honest: lasso certificates from an independent
        # path evaluator for the top-level quantifier
        n = refsem.certify_top(S, t)
        for _ in range(n):
            LOG.hit('c03.certificate')
    if reflang.checkable(t, 'CTL'):
        LOG.sig['shape:ctl'] += 1
        LOG.counters['self_check.cases'] += 1
        if refsem.ctl(nk, t) != exp:
            raise RuntimeError('reference self-check failed on %r %r'
                               % (nk.to_json(), t))
    else:
        LOG.sig['shape:non_ctl'] += 1
    if count_ops(t, QUANT) >= 2:
        LOG.sig['shape:nested_quantifier'] += 1
    expl = sorted(i for i in range(nk.n) if exp >> i & 1)
    if c.raised is not None:
        LOG.violation('c03.modelcheck', PROP, c.case(),
                      'raised ' + mon.fmt_exc(c.raised), expl,
                      note='exception instead of a set',
                      extra={'tb': mon.short_tb(c.raised)})
        return
    obs = c.result_mask
    if c.result_bad or obs != exp:
        LOG.violation('c03.modelcheck', PROP, c.case(),
                      c.result_bad or
                      sorted(i for i in range(nk.n) if obs >> i & 1), expl,
                      note='missing=%s extra=%s (state indices)' % (
                          [i for i in range(nk.n)
                           if exp & ~(obs or 0) >> i & 1],
                          [i for i in range(nk.n)
                           if (obs or 0) & ~exp >> i & 1]))
    cls = 'empty' if exp == 0 else ('all' if exp == nk.full else 'proper')
    LOG.sig['answer:' + cls] += 1
    if cls == 'proper':
        LOG.mark_nontrivial((nk.key(), t))


def inner_judge(c):
    if c.nested:
        LOG.sig['inner:' + c.logic] += 1


def _attach_internal():
    m = sys.modules['pyModelChecking.CTLS.model_checking']
    orig = m._get_a_new_atomic_proposition_for

    def _get_a_new_atomic_proposition_for(kripke, formula):
        before = set()
        for l in kripke._labels.values():
            before.update(l)
        name = orig(kripke, formula)
        LOG.hit('c03.fresh_atom')
        if name in before or not isinstance(name, str):
            LOG.violation('c03.fresh_atom', PROP + '-diag',
                          {'labels': sorted(map(repr, before))[:20]},
                          repr(name), 'a string that labels no state',
                          note='fresh atom collides with an existing label')
        return name
    mon.rebind(orig, _get_a_new_atomic_proposition_for)
    probes.watch([('_get_a_new_atomic_proposition_for', orig),
                  ('_remove_state_subformulas', m._remove_state_subformulas),
                  ('_checkQuantifiedFormula', m._checkQuantifiedFormula),
                  ('CTLS.modelcheck', mcwrap.original('CTLS'))])


def attach():
    mcwrap.attach()
    c01.attach()
    c02.attach()
    mon.attach_once('c03.internal',
                    lambda: mon.safe_internal(_attach_internal))
    for j in (judge, inner_judge):
        if j not in mcwrap.judges:
            mcwrap.judges.append(j)


_parser = [None]


def run_case(nk, t, i, K=None):
    from pyModelChecking import CTLS
    style = ('obj', 'raw', 'text')[i % 3]
    LOG.sig['style:' + style] += 1
    if K is None:
        K = mcwork.kripke_of(nk)
    f = mcwork.formula_arg('CTLS', t, style)
    try:
        if style == 'text' and i % 96 != 2:
            if _parser[0] is None:
                _parser[0] = CTLS.Parser()
            CTLS.modelcheck(K, f, parser=_parser[0])
        else:
            CTLS.modelcheck(K, f)
    except Exception:
        pass
    if i % 499 == 0:
        LOG.sample({'K': nk.to_json(), 'formula': show(t), 'style': style})


def collision_cases():
    """Structures whose labels already contain the names the fresh-atom
    generator would choose, on states where the subformula is FALSE."""
    p, q = ('ap', 'p'), ('ap', 'q')
    out = []
    inner = ('A', ('F', p))
    outer = ('E', ('X', inner))
    # A F p is false at 1 (self loop without p) and true at 0
    for lab1 in (set(), {'[A(F(p))]'}, {'[A(F(p))]', '[[A(F(p))](0)]'},
                 {'[A(F(p))]', '[[A(F(p))](0)]', '[[A(F(p))](1)]'}):
        out.append((NK(range(2), [0b11, 0b10], [{'p'}, set(lab1)]), outer))
        out.append((NK(range(3), [0b010, 0b110, 0b100],
                       [set(lab1), {'q'}, {'p'} | set(lab1)]),
                    ('A', ('G', ('or', inner, ('E', ('X', q)))))))
    # the same nested subformula twice (one fresh name must serve both, or
    # two names must both be right)
    out.append((NK(range(2), [0b11, 0b10], [{'p'}, set()]),
                ('E', ('and', ('X', inner), ('F', ('not', inner))))))
    out.append((NK(range(2), [0b11, 0b10], [{'p'}, set()]),
                ('A', ('or', ('X', inner), ('X', ('E', ('G', ('not', p))))))))
    # two DIFFERENT nested quantified subformulas under one quantifier (each
    # needs its own fresh atom), on structures where they differ
    inners = [('A', ('F', p)), ('E', ('G', q)), ('E', ('X', p)),
              ('A', ('U', p, q)), ('E', ('U', q, p)), ('A', ('G', ('F', q)))]
    shapes = [NK(range(3), [0b010, 0b101, 0b100], [{'p'}, {'q'}, set()]),
              NK(range(3), [0b011, 0b100, 0b010], [{'p', 'q'}, {'p'}, {'q'}]),
              NK(range(2), [0b10, 0b11], [{'q'}, {'p'}])]
    for a in range(len(inners)):
        for b in range(len(inners)):
            if a == b:
                continue
            i1, i2 = inners[a], inners[b]
            for nk in shapes[: 2 if (a + b) % 2 else 3]:
                out.append((nk, ('E', ('and', ('F', i1), ('X', i2)))))
                out.append((nk, ('A', ('or', ('G', i1),
                                       ('F', ('not', i2))))))
                out.append((nk, ('A', ('U', i1, ('X', i2)))))
    # the SAME path formula under both quantifiers in one formula: A g and
    # E g need different fresh atoms although their bodies print alike
    paths = [('G', ('F', p)), ('F', ('G', p)), ('X', p), ('U', p, q),
             ('G', p), ('F', q), ('R', q, p), ('and', ('F', p), ('F', q))]
    shapes2 = shapes + [
        NK(range(2), [0b11, 0b11], [{'p'}, set()]),
        NK(range(3), [0b110, 0b010, 0b101], [set(), {'p'}, {'q'}]),
        NK(range(4), [0b0011, 0b0100, 0b1000, 0b0100],
           [{'p'}, {'p'}, {'q'}, set()])]
    for g in paths:
        Ag, Eg = ('A', g), ('E', g)
        for nk in shapes2:
            out.append((nk, ('and', ('not', Ag), Eg)))
            out.append((nk, ('and', Eg, ('not', Ag))))
            out.append((nk, ('or', Ag, ('not', Eg))))
            out.append((nk, ('E', ('F', ('and', ('not', Ag), Eg)))))
            out.append((nk, ('A', ('G', ('imply', Eg, Ag)))))
            out.append((nk, ('E', ('U', Eg, Ag))))
    # E g next to A not g (and A g next to E not g) for non-CTL g: the two
    # are complements of each other and easy to mix up in any bookkeeping
    nong = [('F', ('G', p)), ('G', ('F', p)), ('X', ('X', q)),
            ('U', p, ('X', q)), ('and', ('F', p), ('G', q)),
            ('or', ('G', p), ('X', q))]
    for g in nong:
        ng = ('not', g)
        for nk in shapes2:
            Eg, Ang = ('E', g), ('A', ng)
            Ag, Eng = ('A', g), ('E', ng)
            out.append((nk, ('and', Eg, ('not', Ang))))
            out.append((nk, ('A', ('G', ('imply', Eg, ('A', ('X', ('not',
                                                                    Ang))))))))
            out.append((nk, ('or', ('and', Ag, Eng), ('and', Eg, Ang))))
            out.append((nk, ('E', ('F', ('and', Ang, ('E', ('X', Eg)))))))
            out.append((nk, ('imply', Ang, ('not', Eg))))
    # three levels of quantifiers with temporal operators in between
    r3_ = gen.rng(0, PROP, 'nest3')
    tops = [lambda x: ('F', x), lambda x: ('G', x), lambda x: ('X', x),
            lambda x: ('U', p, x), lambda x: ('U', x, q),
            lambda x: ('R', q, x), lambda x: ('not', ('F', x)),
            lambda x: ('and', ('F', x), ('G', ('or', p, q))),
            lambda x: ('U', ('not', x), q)]
    for _ in range(160):
        t = r3_.choice([p, q])
        for lvl in range(3):
            t = (r3_.choice('AE'), r3_.choice(tops)(t))
            if r3_.random() < 0.3:
                t = ('not', t)
        nk = r3_.choice(shapes2 + [
            NK(range(4), [0b0110, 0b1000, 0b0001, 0b1000],
               [{'p'}, {'q'}, set(), {'p', 'q'}]),
            NK(range(5), [0b00010, 0b00101, 0b01000, 0b10000, 0b00100],
               [{'p'}, set(), {'q'}, {'p'}, {'q'}])])
        out.append((nk, t))
    # flat n-ary and/or of path formulas under one quantifier, with each
    # position deciding the outcome somewhere
    X = lambda a: ('X', a)
    r_ = ('ap', 'r')
    n3 = NK(range(4), [0b0010, 0b0100, 0b1000, 0b0001],
            [{'p'}, {'q'}, {'r'}, set()])
    n4 = NK(range(3), [0b110, 0b100, 0b001], [{'p'}, {'r'}, {'q'}])
    for nk in (n3, n4, shapes[0]):
        for q_ in 'AE':
            out.append((nk, (q_, ('or', X(p), X(q), X(r_)))))
            out.append((nk, (q_, ('or', X(r_), X(q), X(p)))))
            out.append((nk, (q_, ('and', ('F', p), ('F', q), ('F', r_)))))
            out.append((nk, (q_, ('and', ('G', ('not', p)), ('F', q),
                                  ('G', ('not', r_))))))
            out.append((nk, (q_, ('or', ('G', p), X(X(q)), ('F', r_),
                                  ('G', q)))))
            out.append((nk, (q_, ('and', X(('or', p, q, r_)),
                                  ('F', ('and', ('not', p), ('not', q),
                                         ('not', r_)))))))
    return out


def hostile_labels(nk, t, r):
    """Labels that spell the very names the fresh-atom generator would pick
    for the quantified subformulas of t (and the A(not ..) forms used for E),
    placed on random states -- so they mean something else than the
    subformula."""
    from pyModelChecking import CTLS
    names = set()

    def walk(x):
        if x[0] in ('ap', 'bool'):
            return
        if x[0] in ('A', 'E'):
            try:
                f = mcwork.build(CTLS, x)
                names.add('[%s]' % f)
                names.add('[[%s](0)]' % f)
                g = mcwork.build(CTLS, x[1])
                names.add('[%s]' % CTLS.A(CTLS.LNot(g)))
                names.add('[%s]' % CTLS.A(g))
            except Exception:
                pass
        for c in x[1:]:
            walk(c)
    walk(t)
    labels = [set(l) for l in nk.labels]
    for nm in names:
        for i in range(nk.n):
            if r.random() < 0.4:
                labels[i].add(nm)
    LOG.sig['labels:spell_fresh_atoms'] += 1
    return NK(nk.states, nk.succ, labels)


def run(ctx):
    attach()
    r = gen.rng(ctx.seed, PROP, 'main')
    fam = gen.enum_ctls_small()
    F1 = gen.enum_ctl(1)
    reps = {n: list(gen.representatives(n)) for n in (1, 2, 3)}
    if ctx.quick:
        structs = reps[1] + r.sample(reps[2], 30) + r.sample(reps[3], 12)
        nrandom = 1200
        fam_s = fam
    else:
        structs = reps[1] + reps[2] + r.sample(reps[3], 500)
        nrandom = 50000
        fam_s = fam
    i = 0
    for si, nk in enumerate(structs):
        if not ctx.mine(si):
            continue
        K = mcwork.kripke_of(nk)
        for t in fam_s:
            run_case(nk, t, i, K)
            i += 1
        for t in (F1 if si % 4 == 0 else F1[::7]):
            run_case(nk, t, i, K)
            i += 1
    for k, (nk, t) in enumerate(collision_cases()):
        if ctx.mine(k):
            run_case(nk, t, 0)     # object style: fresh names from str(f)
            run_case(nk, t, 2)
    # one structure queried, modified in place, queried again
    from pyModelChecking import CTLS as _CTLS
    for h in range(60 if ctx.quick else 2000):
        rr = gen.rng(ctx.seed, PROP, ('mut', h))
        if not ctx.mine(h):
            continue
        LOG.sig['history:mutation'] += 1
        nk = gen.random_structure(rr, 4, atoms=('p', 'q'), nmin=2)
        K = mcwork.kripke_of(nk)
        forms = [('A', ('F', ('G', ('ap', 'p')))),
                 ('E', ('G', ('F', ('ap', 'q')))),
                 ('A', ('G', ('E', ('X', ('ap', 'p'))))),
                 gen.random_ctls_state(rr, 3, ('p', 'q'), qdepth=2)]
        for step in range(4):
            for t in rr.sample(forms, 2):
                try:
                    _CTLS.modelcheck(K, mcwork.formula_arg('CTLS', t, 'obj'))
                except Exception:
                    pass
            sts = list(K.states())
            s_ = rr.choice(sts)
            if rr.random() < 0.6:
                atom = rr.choice(['p', 'q'])
                if atom in K.labels(s_):
                    K.labels(s_).discard(atom)
                else:
                    K.labels(s_).add(atom)
            else:
                d = rr.choice(sts)
                if d not in K.next(s_):
                    K.add_edge(s_, d)
    for k in range(nrandom):
        nk = gen.random_structure(r, 5)
        t = gen.random_ctls_state(r, r.randint(2, 4),
                                  qdepth=2 if k % 4 else 3,
                                  max_temporal=3 if k % 4 else 2)
        if not ctx.mine(k):
            continue
        if k % 3 == 0:
            nk = hostile_labels(nk, t, gen.rng(ctx.seed, PROP, ('hl', k)))
            run_case(nk, t, 3 * (i // 3))       # object style
        else:
            run_case(nk, t, i)
        i += 1
    ctx.extra['reach'] = probes.result()


def finalize(reports, ctx):
    merged = probes.merge([r['extra'].get('reach', {}) for r in reports])
    cov = {'reach': {k: {'lines': v['lines'], 'hit': v['hit'],
                         'never_reached': v['never_reached']}
                     for k, v in merged.items()
                     if k in ('_get_a_new_atomic_proposition_for',
                              '_remove_state_subformulas',
                              '_checkQuantifiedFormula', 'CTLS.modelcheck')}}
    ev, waived = probes.reach_sigs(merged, CONFIG['must_sig'])
    cov['reach_requirements_waived'] = waived
    return {'coverage': cov, 'sig_add': ev}


def replay(ctx, rep):
    attach()
    mcwork.replay_mc(rep['case'])
