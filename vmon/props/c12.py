"""C12 -- strongly connected components are computed exactly.

Deciding monitor c12.compute_SCCs: a pass-through wrapper on the generator,
rebound over all four bindings of compute_SCCs (graph, kripke, CTL and LTL
model checking).  The graph is snapshotted when the generator is created and
judged when it is exhausted: the components partition the node set and two
nodes share a component iff they are mutually reachable (Warshall closure).
It therefore also judges every internal use: reversed phi-subgraphs (EG),
tableau graphs (LTL), fair-state search.
"""

import itertools
import sys

from .. import mon, refgraph, gen, probes, graphwork
from ..mon import LOG
from ..neutral import graph_rows, NeutralError

PROP = 'C12'

CONFIG = {
    'technique': ('runtime monitor: pass-through wrapper on the compute_SCCs '
                  'generator (all bindings) judged on exhaustion against '
                  'mutual reachability from a transitive closure'),
    'level_text': ('Every exhausted compute_SCCs generator observed (driven '
                   'directly on enumerated/random digraphs under several '
                   'insertion orders and node types, and indirectly by CTL '
                   'EG, the LTL tableau and fair-state detection) is compared '
                   'with the partition induced by mutual reachability. '
                   'Exhaustive over all labelled digraphs with <=4 nodes in '
                   'the thorough tier (all 24 insertion orders), '
                   'sampled orders in quick.'),
    'level_note': ('Trusted base: vmon/refgraph.py (Warshall closure on bit '
                   'rows), graph snapshot read from DiGraph._next.'),
    'deciding': ['c12.compute_SCCs'],
    'shards': {'quick': 16, 'thorough': 16},
    'hashseeds': {'quick': 2, 'thorough': 4},
    'min_evals': {'quick': {'c12.compute_SCCs': 100000},
                  'thorough': {'c12.compute_SCCs': 1500000}},
    'must_sig': ['site:pyModelChecking.CTL.model_checking:*',
                 'site:pyModelChecking.LTL.model_checking:*',
                 'site:pyModelChecking.kripke:*',
                 'shape:multi_root', 'shape:nontrivial+trivial',
                 'shape:long_path', 'shape:long_ring', 'shape:long_lollipop'],
    'rule': ('cases = (edge set, node insertion order, node naming, '
             'construction style); enumerated: every labelled digraph on <=4 '
             'nodes under 2 (quick) / all (thorough) insertion orders; '
             'random digraphs to 12 nodes with planted cycles; plus the '
             'graphs the model checkers build internally. non-trivial = the '
             'graph has >=2 components and at least one component with >=2 '
             'nodes; distinct = distinct (rows, order, naming, style), '
             'enumerated ones are distinct by construction, others are '
             'deduplicated by digest'),
    'exhaustive': {'quick': True, 'thorough': True},
    'exhaustive_note': ('all 2^(n^2) edge sets for n<=4 (1+2+16+512+65536); '
                        'quick: 2 insertion orders per 4-node graph, all '
                        'orders for n<=3; thorough: all 24 orders'),
    'assumptions': ['mutual reachability by Warshall closure is the oracle'],
}

_enum = [False]


def _wrap(orig):
    def compute_SCCs(G):
        site = mon.caller_site(2)
        try:
            nodes, rows = graph_rows(G)
        except Exception:
            # not a DiGraph: let the real function raise its TypeError
            for scc in orig(G):
                yield scc
            return
        comps = []
        for scc in orig(G):
            comps.append(list(scc))
            yield scc
        LOG.hit('c12.compute_SCCs', site)
        LOG.sig['site:' + site] += 1
        judge(nodes, rows, comps, site)
    compute_SCCs.__name__ = 'compute_SCCs'
    return compute_SCCs


def judge(nodes, rows, comps, site):
    n = len(nodes)
    idx = {v: i for i, v in enumerate(nodes)}
    if n <= 64:
        exp = refgraph.scc_partition(rows)
    else:
        # large graphs: own iterative Tarjan (Warshall would be cubic)
        from ..refsem import _tarjan
        succ = [[j for j in range(n) if rows[i] >> j & 1] for i in range(n)]
        exp = []
        for comp in _tarjan(n, lambda i: succ[i]):
            m = 0
            for x in comp:
                m |= 1 << x
            exp.append(m)
    seen = 0
    obs = []
    bad = None
    for c in comps:
        m = 0
        for v in c:
            if v not in idx:
                bad = 'component contains a non-node %r' % (v,)
                continue
            b = 1 << idx[v]
            if m & b or seen & b:
                bad = 'node %r emitted twice' % (v,)
            m |= b
        seen |= m
        obs.append(m)
    if not bad and seen != (1 << n) - 1:
        bad = 'nodes missing from every component'
    if not bad and sorted(obs) != sorted(exp):
        bad = 'components differ from mutual reachability'
    nontrivial = len(exp) >= 2 and any(c & (c - 1) for c in exp)
    if nontrivial:
        LOG.sig['shape:nontrivial+trivial'] += 1
        if _enum[0]:
            LOG.counters['nontrivial_enum'] += 1
        else:
            LOG.mark_nontrivial((tuple(rows), tuple(map(repr, nodes))))
    LOG.sig['n=%d,sccs=%d' % (min(n, 13), min(len(exp), 13))] += 1
    # more than one DFS root is needed iff node 0 (first in iteration order)
    # does not reach everything
    if n and n <= 64 and refgraph.reachable_from(rows, 1) != (1 << n) - 1:
        LOG.sig['shape:multi_root'] += 1
    if bad:
        LOG.violation('c12.compute_SCCs', PROP,
                      {'nodes': [repr(v) for v in nodes], 'rows': rows,
                       'site': site},
                      [sorted(repr(v) for v in c) for c in comps],
                      [[repr(nodes[i]) for i in range(n) if c >> i & 1]
                       for c in exp], note=bad)


def attach():
    def do():
        import pyModelChecking.graph as g
        import pyModelChecking.CTL
        import pyModelChecking.LTL
        import pyModelChecking.CTLS
        orig = g.compute_SCCs
        places = mon.rebind(orig, _wrap(orig))
        probes.watch([('compute_SCCs', orig)])
        LOG.notes.append('compute_SCCs rebound at: ' + ', '.join(places))
        return places
    return mon.attach_once('c12', do)


def drive(rows, order, namer, style, edge_order=None):
    from pyModelChecking.graph import compute_SCCs
    G, names = graphwork.make_digraph(rows, order, namer, edge_order, style)
    try:
        list(compute_SCCs(G))
    except Exception as e:
        LOG.violation('c12.compute_SCCs', PROP,
                      {'rows': list(rows), 'order': list(order),
                       'namer': namer, 'style': style},
                      'raised ' + mon.fmt_exc(e), 'a list of components',
                      note='exception', extra={'tb': mon.short_tb(e)})


def internal_uses(ctx, r):
    """Let the model checkers call compute_SCCs on the graphs they build."""
    from pyModelChecking import CTL, LTL
    from .. import mcwork
    k = 0
    for i in range(400 if ctx.quick else 6000):
        nk = gen.random_structure(r, 5)
        if not ctx.mine(i):
            continue
        K = mcwork.kripke_of(nk)
        try:
            CTL.modelcheck(K, mcwork.formula_arg(
                'CTL', ('E', ('G', gen.random_ctl(r, 2))), 'obj'))
            g = gen.random_ltl_path(r, 2, max_temporal=2)
            LTL.modelcheck(K, mcwork.formula_arg('LTL', ('A', g), 'obj'))
            K.get_fair_states([set(K.states())])
        except Exception:
            LOG.counters['internal_use_raised'] += 1


def run(ctx):
    attach()
    r = gen.rng(ctx.seed, PROP, 'main')
    i = 0
    namers = ['int', 'str', 'tuple', 'longstr', 'frozenset']
    _enum[0] = True
    for n in (0, 1, 2, 3):
        for rows in gen.all_digraphs(n):
            for order in itertools.permutations(range(n)):
                if ctx.mine(i):
                    drive(rows, order, namers[i % 3], i % 3)
                i += 1
    orders4 = list(itertools.permutations(range(4)))
    gi = 0
    for rows in gen.all_digraphs(4):
        if ctx.mine(gi):
            if ctx.quick:
                os_ = [orders4[gi % 24], orders4[(gi * 7 + 11) % 24]]
                if os_[0] == os_[1]:
                    os_ = [os_[0], orders4[(gi + 1) % 24]]
            else:
                os_ = orders4
            for oi, order in enumerate(os_):
                drive(rows, order, namers[(gi + oi) % 3], (gi + oi) % 3)
        gi += 1
    _enum[0] = False
    if ctx.shard == 0:
        LOG.sample({'rows': [5, 8, 2, 4], 'order': [2, 0, 3, 1],
                    'meaning': 'rows[i] = successor bit mask of node i; '
                               'nodes inserted in `order`'})
    nrand = 24000 if ctx.quick else 400000
    for k in range(nrand):
        rows = gen.random_digraph(r, 12 if k % 3 == 0 else 8,
                                  nmin=1 if k % 3 == 0 else 5)
        order = list(range(len(rows)))
        r.shuffle(order)
        nmr = r.choice(namers + ['mixed'])
        st = r.randrange(3)
        eo = r.choice([None, 'rev'])
        if ctx.mine(k):
            drive(rows, order, nmr, st, eo)
            if k % 1000 == 0:
                LOG.sample({'rows': list(rows), 'order': order,
                            'namer': nmr, 'style': st})
    # long chains, rings and lollipops: thousands of nodes on one DFS branch
    big = [('path', 1500), ('ring', 2200), ('lollipop', 3000),
           ('two_rings', 2600)]
    for bi, (kind, nbig) in enumerate(big):
        if not ctx.mine(bi):
            continue
        LOG.sig['shape:long_' + kind] += 1
        rows = []
        for i in range(nbig):
            if kind == 'path':
                rows.append(1 << (i + 1) if i + 1 < nbig else 0)
            elif kind == 'ring':
                rows.append(1 << ((i + 1) % nbig))
            elif kind == 'lollipop':
                # a path into a ring
                half = nbig // 2
                rows.append(1 << (i + 1) if i + 1 < nbig else 1 << half)
            else:
                half = nbig // 2
                nxt = (i + 1) % half if i < half else \
                    half + ((i + 1 - half) % (nbig - half))
                m = 1 << nxt
                if i == 0:
                    m |= 1 << half           # bridge ring 1 -> ring 2
                rows.append(m)
        drive(tuple(rows), list(range(nbig)), 'int', 0)
        drive(tuple(rows), list(range(nbig - 1, -1, -1)), 'str', 2)
    internal_uses(ctx, r)
    LOG.nontrivial_extra += LOG.counters.pop('nontrivial_enum', 0)
    ctx.extra['reach'] = probes.result()


def finalize(reports, ctx):
    merged = probes.merge([r['extra'].get('reach', {}) for r in reports])
    return {'coverage': {'reach': {k: {'lines': v['lines'], 'hit': v['hit'],
                                       'never_reached': v['never_reached']}
                                   for k, v in merged.items()}}}


def replay(ctx, rep):
    attach()
    c = rep['case']
    if 'order' in c:
        drive(c['rows'], c['order'], c['namer'], c['style'])
    else:
        drive(c['rows'], list(range(len(c['rows']))), 'int', 0)
