"""Graph oracles on bit rows: transitive closure, mutual reachability."""


def closure(rows):
    """Reflexive-transitive closure (Warshall on bit rows)."""
    n = len(rows)
    reach = [rows[i] | (1 << i) for i in range(n)]
    for k in range(n):
        bk = 1 << k
        rk = reach[k]
        for i in range(n):
            if reach[i] & bk:
                reach[i] |= rk
    return reach


def scc_partition(rows):
    """Canonical SCC partition: list of masks, by mutual reachability."""
    n = len(rows)
    reach = closure(rows)
    # back[i] = nodes that reach i
    back = [0] * n
    for i in range(n):
        r = reach[i]
        for j in range(n):
            if r >> j & 1:
                back[j] |= 1 << i
    seen = 0
    comps = []
    for i in range(n):
        if seen >> i & 1:
            continue
        c = reach[i] & back[i]
        comps.append(c)
        seen |= c
    return comps


def reachable_from(rows, xmask):
    """xmask plus everything reachable from it (worklist, independent of
    closure())."""
    r = xmask
    frontier = xmask
    while frontier:
        nxt = 0
        i = 0
        f = frontier
        while f:
            if f & 1:
                nxt |= rows[i]
            f >>= 1
            i += 1
        frontier = nxt & ~r
        r |= nxt
    return r


def reversed_rows(rows):
    n = len(rows)
    out = [0] * n
    for i in range(n):
        for j in range(n):
            if rows[i] >> j & 1:
                out[j] |= 1 << i
    return out
