#!/bin/sh
# Re-run every seeded defect in /verif/seeded against the current checks.
# Prints one line per defect; exit 1 if any is not CAUGHT (or its replay does
# not reproduce on the patched copy / stays silent on the clean copy).
cd "$(dirname "$0")/.."
rc=0
for d in seeded/*/; do
  n=$(basename "$d")
  out=$(timeout 3600 tools/seeded.py "$d" "$n" ${KEEP---keep} 2>/dev/null | /venv/bin/python -c "
import json,sys
try:
    r=json.load(sys.stdin)
except Exception as e:
    print('$n', 'TOOL-ERROR'); sys.exit(0)
for p,v in r['checks'].items():
    rp=v.get('replay') or {}
    print(r['name'], p, v['verdict'], 'tests_pass=%s demo_ok=%s replay_ok=%s wall=%ss' % (r['tests_pass'], r['demo_ok'], rp.get('ok'), v['wall_s']))
")
  echo "$out"
  echo "$out" | grep -q "CAUGHT tests_pass=True demo_ok=True replay_ok=True" || rc=1
done
exit $rc
