"""Enumerators and seeded generators of structures, formulas and graphs.

All on neutral forms.  Random streams are random.Random(f"{seed}/{prop}/{stream}")
so they do not depend on PYTHONHASHSEED.
"""

import itertools
import random

from .neutral import NK

LEAVES = (('ap', 'p'), ('ap', 'q'), ('bool', True), ('bool', False))


def rng(seed, prop, stream):
    return random.Random('%s/%s/%s' % (seed, prop, stream))


# --------------------------------------------------------------------------
# Kripke structures

def all_structures(n, atoms=('p', 'q')):
    """All total structures on states 0..n-1 with labels subsets of atoms."""
    rows = list(range(1, 1 << n))
    labsets = [frozenset(a for i, a in enumerate(atoms) if m >> i & 1)
               for m in range(1 << len(atoms))]
    for succ in itertools.product(rows, repeat=n):
        for labs in itertools.product(labsets, repeat=n):
            yield NK(range(n), succ, labs)


def count_structures(n, natoms=2):
    return ((1 << n) - 1) ** n * (1 << natoms) ** n


def canon_key(nk):
    """Canonical key under state permutation (n <= 4 only: n! candidates)."""
    n = nk.n
    best = None
    labs = [tuple(sorted(map(str, l))) for l in nk.labels]
    for perm in itertools.permutations(range(n)):
        # perm[i] = new index of old state i
        rows = [0] * n
        nl = [None] * n
        for i in range(n):
            m = 0
            s = nk.succ[i]
            for j in range(n):
                if s >> j & 1:
                    m |= 1 << perm[j]
            rows[perm[i]] = m
            nl[perm[i]] = labs[i]
        key = (tuple(rows), tuple(nl))
        if best is None or key < best:
            best = key
    return (n,) + best


def representatives(n, atoms=('p', 'q')):
    """One structure per isomorphism class (the canonical one)."""
    for nk in all_structures(n, atoms):
        key = canon_key(nk)
        if key[1] == tuple(nk.succ) and \
                key[2] == tuple(tuple(sorted(map(str, l)))
                                for l in nk.labels):
            yield nk


def random_structure(r, nmax=6, atoms=('p', 'q', 'r'), nmin=1, maxdeg=3,
                     shape=None):
    n = r.randint(nmin, nmax)
    shape = shape or r.choice(['plain', 'plain', 'selfloops', 'unreach',
                               'chain', 'dense'])
    succ = []
    for i in range(n):
        if shape == 'selfloops' and r.random() < 0.5:
            succ.append(1 << i)
            continue
        if shape == 'chain':
            m = 1 << ((i + 1) % n) if r.random() < 0.7 else 1 << i
            if r.random() < 0.3:
                m |= 1 << r.randrange(n)
            succ.append(m)
            continue
        deg = r.randint(1, min(n, maxdeg if shape != 'dense' else n))
        m = 0
        for j in r.sample(range(n), deg):
            m |= 1 << j
        succ.append(m)
    if shape == 'unreach' and n >= 3:
        # make the last state unreachable from the others
        last = n - 1
        for i in range(n - 1):
            succ[i] &= ~(1 << last)
            if not succ[i]:
                succ[i] = 1 << i
    labs = []
    for i in range(n):
        labs.append(frozenset(a for a in atoms if r.random() < 0.45))
    return NK(range(n), succ, labs)


# --------------------------------------------------------------------------
# formulas

def enum_ctl(depth, leaves=LEAVES, leaf_operand=True):
    """All CTL state formulas of operator depth <= depth.  With
    leaf_operand, binary operators at the top level of depth >= 2 take at
    least one leaf operand (keeps F2 at ~9k)."""
    prev = list(leaves)
    allf = list(leaves)
    for d in range(1, depth + 1):
        new = []
        pool = allf
        leafset = set(leaves)
        for a in pool:
            new.append(('not', a))
            for q in 'AE':
                for op in 'XFG':
                    new.append((q, (op, a)))
        for a in pool:
            for b in pool:
                if d >= 2 and leaf_operand and a not in leafset and \
                        b not in leafset:
                    continue
                new.append(('and', a, b))
                new.append(('or', a, b))
                new.append(('imply', a, b))
                for q in 'AE':
                    new.append((q, ('U', a, b)))
                    new.append((q, ('R', a, b)))
        seen = set(allf)
        for f in new:
            if f not in seen:
                seen.add(f)
                allf.append(f)
    return allf


def enum_ltl_path(depth, leaves=LEAVES, leaf_operand=True):
    allf = list(leaves)
    leafset = set(leaves)
    for d in range(1, depth + 1):
        new = []
        pool = allf
        for a in pool:
            for op in ('not', 'X', 'F', 'G'):
                new.append((op, a))
        for a in pool:
            for b in pool:
                if d >= 2 and leaf_operand and a not in leafset and \
                        b not in leafset:
                    continue
                for op in ('and', 'or', 'imply', 'U', 'R'):
                    new.append((op, a, b))
        seen = set(allf)
        for f in new:
            if f not in seen:
                seen.add(f)
                allf.append(f)
    return allf


def random_ctl(r, depth, atoms=('p', 'q', 'r'), pbool=0.12):
    if depth <= 0 or r.random() < 0.15:
        if r.random() < pbool:
            return ('bool', r.random() < 0.5)
        return ('ap', r.choice(atoms))
    k = r.random()
    if k < 0.15:
        return ('not', random_ctl(r, depth - 1, atoms, pbool))
    if k < 0.35:
        op = r.choice(['and', 'or', 'imply'])
        n = 2 if op == 'imply' or r.random() < 0.75 else r.choice([3, 3, 4, 5])
        return (op,) + tuple(random_ctl(r, depth - 1, atoms, pbool)
                             for _ in range(n))
    q = r.choice('AE')
    op = r.choice('XFGUR')
    if op in 'XFG':
        return (q, (op, random_ctl(r, depth - 1, atoms, pbool)))
    return (q, (op, random_ctl(r, depth - 1, atoms, pbool),
                random_ctl(r, depth - 1, atoms, pbool)))


def random_ltl_path(r, depth, atoms=('p', 'q', 'r'), pbool=0.12,
                    max_temporal=None):
    def rec(depth):
        if depth <= 0 or r.random() < 0.15:
            if r.random() < pbool:
                return ('bool', r.random() < 0.5)
            return ('ap', r.choice(atoms))
        k = r.random()
        if k < 0.15:
            return ('not', rec(depth - 1))
        if k < 0.4:
            op = r.choice(['and', 'or', 'imply'])
            n = 2 if op == 'imply' or r.random() < 0.75 else \
                r.choice([3, 3, 4])
            return (op,) + tuple(rec(depth - 1) for _ in range(n))
        op = r.choice('XFGUR')
        if op in 'XFG':
            return (op, rec(depth - 1))
        return (op, rec(depth - 1), rec(depth - 1))
    from .neutral import count_ops, TEMPORAL
    for _ in range(50):
        t = rec(depth)
        if max_temporal is None or count_ops(t, TEMPORAL) <= max_temporal:
            return t
    return ('ap', atoms[0])


def random_ctls_state(r, depth, atoms=('p', 'q', 'r'), qdepth=2,
                      max_temporal=3, pbool=0.1):
    """Random CTL* state formula: quantifier nesting <= qdepth, at most
    max_temporal temporal operators directly under each quantifier."""
    from .neutral import count_ops, TEMPORAL

    def state(depth, qd):
        if depth <= 0 or (qd <= 0 and r.random() < 0.5) or r.random() < 0.1:
            if r.random() < pbool:
                return ('bool', r.random() < 0.5)
            return ('ap', r.choice(atoms))
        k = r.random()
        if qd > 0 and k < 0.6:
            q = r.choice('AE')
            for _ in range(30):
                g = path(depth - 1, qd - 1)
                if temporal_under(g) <= max_temporal:
                    return (q, g)
            return (q, ('X', ('ap', r.choice(atoms))))
        if k < 0.75:
            return ('not', state(depth - 1, qd))
        op = r.choice(['and', 'or', 'imply'])
        if op != 'imply' and r.random() < 0.25:
            return (op, state(depth - 1, qd), state(depth - 1, qd),
                    state(depth - 1, qd))
        return (op, state(depth - 1, qd), state(depth - 1, qd))

    def path(depth, qd):
        if depth <= 0 or r.random() < 0.12:
            return state(0, 0)
        k = r.random()
        if k < 0.12 and qd > 0:
            return state(depth, qd)
        if k < 0.25:
            return ('not', path(depth - 1, qd))
        if k < 0.45:
            op = r.choice(['and', 'or', 'imply'])
            if op != 'imply' and r.random() < 0.3:
                return (op,) + tuple(path(depth - 1, qd)
                                     for _ in range(r.choice([3, 3, 4])))
            return (op, path(depth - 1, qd), path(depth - 1, qd))
        op = r.choice('XFGUR')
        if op in 'XFG':
            return (op, path(depth - 1, qd))
        return (op, path(depth - 1, qd), path(depth - 1, qd))

    def temporal_under(g):
        # temporal operators not below a nested quantifier
        if g[0] in ('ap', 'bool', 'A', 'E'):
            return 0
        return (1 if g[0] in TEMPORAL else 0) + \
            sum(temporal_under(c) for c in g[1:])

    return state(depth, qdepth)


def enum_ctls_small(leaves=(('ap', 'p'), ('ap', 'q'))):
    """A systematic family of CTL* state formulas that are NOT all CTL:
    Q over Boolean/temporal combinations of depth <= 2, plus one level of
    nested quantifier."""
    paths1 = []
    for a in leaves:
        for op in 'XFG':
            paths1.append((op, a))
    for a in leaves:
        for b in leaves:
            paths1.append(('U', a, b))
            paths1.append(('R', a, b))
    paths2 = list(paths1)
    for g in paths1:
        for op in ('X', 'F', 'G', 'not'):
            paths2.append((op, g))
    for g in paths1[:10]:
        for h in paths1[:10]:
            if g != h:
                paths2.append(('and', g, h))
                paths2.append(('or', g, h))
                paths2.append(('imply', g, h))
    for g in paths1[:6]:
        for a in leaves:
            paths2.append(('U', g, a))
            paths2.append(('U', a, g))
            paths2.append(('R', a, g))
    out = []
    for g in leaves + tuple(paths2):
        out.append(('A', g))
        out.append(('E', g))
    # nested quantifiers
    inner = [('A', ('F', ('ap', 'p'))), ('E', ('G', ('ap', 'q'))),
             ('E', ('X', ('ap', 'p'))), ('A', ('U', ('ap', 'p'), ('ap', 'q')))]
    for i in inner:
        for q in 'AE':
            out.append((q, ('F', ('G', i))))
            out.append((q, ('G', ('F', i))))
            out.append((q, ('U', ('ap', 'q'), ('X', i))))
            out.append((q, ('and', ('F', i), ('G', ('ap', 'p')))))
            out.append((q, ('X', ('not', i))))
        out.append(('not', i))
        out.append(('and', i, ('ap', 'q')))
    return out


# --------------------------------------------------------------------------
# digraphs

def all_digraphs(n):
    """rows tuples: every edge set on n labelled nodes."""
    for rows in itertools.product(range(1 << n), repeat=n):
        yield rows


def random_digraph(r, nmax=12, nmin=1):
    n = r.randint(nmin, nmax)
    p = r.choice([0.08, 0.15, 0.25, 0.4])
    rows = []
    for i in range(n):
        m = 0
        for j in range(n):
            if r.random() < p:
                m |= 1 << j
        rows.append(m)
    # plant structure: a long cycle, a forward edge, a cross edge
    if n >= 4 and r.random() < 0.6:
        k = r.randint(2, n)
        cyc = r.sample(range(n), k)
        for a, b in zip(cyc, cyc[1:] + cyc[:1]):
            rows[a] |= 1 << b
    return tuple(rows)


# --------------------------------------------------------------------------
# generic per-language enumerators / random generators (C08-C11)

def enum_lang(logic, depth, leaves=LEAVES, cap=None, r=None):
    """Formulas (trees) of the language `logic` up to operator depth `depth`.
    PL: Boolean operators; LTL: path formulas plus A(g) at the root; CTLS:
    path formulas with A/E as unary operators; CTL: state formulas.  With
    cap, each level keeps a seeded sample of at most cap new formulas."""
    if logic == 'CTL':
        out = enum_ctl(depth, leaves, leaf_operand=False) if cap is None \
            else _enum_capped(('not',), (), depth, leaves, cap, r, ctl=True)
        return out
    if logic == 'PL':
        un, bi = ('not',), ('and', 'or', 'imply')
    elif logic == 'LTL':
        un, bi = ('not', 'X', 'F', 'G'), ('and', 'or', 'imply', 'U', 'R')
    else:
        un, bi = ('not', 'X', 'F', 'G', 'A', 'E'), \
            ('and', 'or', 'imply', 'U', 'R')
    out = _enum_capped(un, bi, depth, leaves, cap, r)
    if logic == 'LTL':
        out = out + [('A', g) for g in out]
    return out


def _enum_capped(un, bi, depth, leaves, cap, r, ctl=False):
    allf = list(leaves)
    for d in range(1, depth + 1):
        new = []
        if ctl:
            for a in allf:
                new.append(('not', a))
                for q in 'AE':
                    for op in 'XFG':
                        new.append((q, (op, a)))
            for a in allf:
                for b in allf:
                    for op in ('and', 'or', 'imply'):
                        new.append((op, a, b))
                    for q in 'AE':
                        new.append((q, ('U', a, b)))
                        new.append((q, ('R', a, b)))
        else:
            for a in allf:
                for op in un:
                    new.append((op, a))
            for a in allf:
                for b in allf:
                    for op in bi:
                        new.append((op, a, b))
        seen = set(allf)
        new = [f for f in new if f not in seen]
        if cap is not None and len(new) > cap:
            new = r.sample(new, cap)
        allf.extend(new)
    return allf


def random_lang(r, logic, depth, atoms=('p', 'q'), nary=True):
    """Random formula of the language (state or path as the language allows),
    n-ary and/or of arity 2..4."""
    def leaf():
        if r.random() < 0.15:
            return ('bool', r.random() < 0.5)
        return ('ap', r.choice(atoms))

    def boolean(rec, depth):
        op = r.choice(['and', 'or', 'imply', 'not'])
        if op == 'not':
            return ('not', rec(depth - 1))
        if op == 'imply':
            return ('imply', rec(depth - 1), rec(depth - 1))
        n = r.choice([2, 2, 3, 4]) if nary else 2
        return (op,) + tuple(rec(depth - 1) for _ in range(n))

    def pl(depth):
        if depth <= 0 or r.random() < 0.15:
            return leaf()
        return boolean(pl, depth)

    def ltl(depth):
        if depth <= 0 or r.random() < 0.15:
            return leaf()
        if r.random() < 0.45:
            return boolean(ltl, depth)
        op = r.choice('XFGUR')
        if op in 'XFG':
            return (op, ltl(depth - 1))
        return (op, ltl(depth - 1), ltl(depth - 1))

    def ctls(depth):
        if depth <= 0 or r.random() < 0.15:
            return leaf()
        k = r.random()
        if k < 0.35:
            return boolean(ctls, depth)
        if k < 0.55:
            return (r.choice('AE'), ctls(depth - 1))
        op = r.choice('XFGUR')
        if op in 'XFG':
            return (op, ctls(depth - 1))
        return (op, ctls(depth - 1), ctls(depth - 1))

    def ctl(depth):
        if depth <= 0 or r.random() < 0.15:
            return leaf()
        if r.random() < 0.4:
            return boolean(ctl, depth)
        q = r.choice('AE')
        op = r.choice('XFGUR')
        if op in 'XFG':
            return (q, (op, ctl(depth - 1)))
        return (q, (op, ctl(depth - 1), ctl(depth - 1)))

    if logic == 'PL':
        return pl(depth)
    if logic == 'LTL':
        g = ltl(depth)
        return ('A', g) if r.random() < 0.3 else g
    if logic == 'CTLS':
        return ctls(depth)
    return ctl(depth)
