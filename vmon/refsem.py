"""Reference semantics (the trusted base for C01-C05, C15).

ctl(nk, t)            : direct fix-point semantics of every CTL operator
star(nk, t, fair=...) : CTL* by structural recursion; E g decided on the
                        product of K with the valuations of g's elementary
                        formulas (generalised Buchi emptiness), fairness as
                        extra acceptance sets
Everything works on neutral forms (vmon.neutral) and bit masks.
"""

from .neutral import TEMPORAL, QUANT


class RefSkip(Exception):
    """The case is above the reference's size cap: skipped, never judged."""


class RefError(Exception):
    """The tree is not a formula of the requested kind."""


# --------------------------------------------------------------------------
# CTL by fix-points

def _pre_e(nk, z):
    m = 0
    for i, s in enumerate(nk.succ):
        if s & z:
            m |= 1 << i
    return m


def _pre_a(nk, z):
    m = 0
    nz = ~z
    for i, s in enumerate(nk.succ):
        if not (s & nz):
            m |= 1 << i
    return m


def _lfp(f):
    z = 0
    while True:
        nz = f(z)
        if nz == z:
            return z
        z = nz


def _gfp(f, full):
    z = full
    while True:
        nz = f(z)
        if nz == z:
            return z
        z = nz


def ctl(nk, t, memo=None):
    """Mask of states satisfying the CTL state formula t."""
    if memo is None:
        memo = {}
    if t in memo:
        return memo[t]
    full = nk.full
    op = t[0]
    if op == 'bool':
        r = full if t[1] else 0
    elif op == 'ap':
        r = nk.label_mask(t[1])
    elif op == 'not':
        r = full & ~ctl(nk, t[1], memo)
    elif op == 'or':
        r = 0
        for c in t[1:]:
            r |= ctl(nk, c, memo)
    elif op == 'and':
        r = full
        for c in t[1:]:
            r &= ctl(nk, c, memo)
    elif op == 'imply':
        r = (full & ~ctl(nk, t[1], memo)) | ctl(nk, t[2], memo)
    elif op in QUANT:
        g = t[1]
        if g[0] not in TEMPORAL:
            raise RefError('not CTL: %r' % (t,))
        pre = (lambda z: _pre_e(nk, z)) if op == 'E' else \
              (lambda z: _pre_a(nk, z))
        a = ctl(nk, g[1], memo)
        if g[0] == 'X':
            r = pre(a)
        elif g[0] == 'F':
            r = _lfp(lambda z: a | pre(z))
        elif g[0] == 'G':
            r = _gfp(lambda z: a & pre(z), full)
        else:
            b = ctl(nk, g[2], memo)
            if g[0] == 'U':
                r = _lfp(lambda z: b | (a & pre(z)))
            else:   # a R b
                r = _gfp(lambda z: b & (a | pre(z)), full)
    else:
        raise RefError('not a CTL state formula: %r' % (t,))
    memo[t] = r
    return r


# --------------------------------------------------------------------------
# CTL*

def is_state_tree(t):
    op = t[0]
    if op in ('ap', 'bool') or op in QUANT:
        return True
    if op in TEMPORAL:
        return False
    return all(is_state_tree(c) for c in t[1:])


def _tarjan(nnodes, succ_of):
    """Iterative Tarjan. succ_of(i) -> list. Returns list of components."""
    index = [-1] * nnodes
    low = [0] * nnodes
    onstack = [False] * nnodes
    st = []
    comps = []
    counter = 0
    for root in range(nnodes):
        if index[root] != -1:
            continue
        work = [(root, iter(succ_of(root)))]
        index[root] = low[root] = counter
        counter += 1
        st.append(root)
        onstack[root] = True
        while work:
            v, it = work[-1]
            advanced = False
            for w in it:
                if index[w] == -1:
                    index[w] = low[w] = counter
                    counter += 1
                    st.append(w)
                    onstack[w] = True
                    work.append((w, iter(succ_of(w))))
                    advanced = True
                    break
                elif onstack[w]:
                    if index[w] < low[v]:
                        low[v] = index[w]
            if advanced:
                continue
            work.pop()
            if work:
                u = work[-1][0]
                if low[v] < low[u]:
                    low[u] = low[v]
            if low[v] == index[v]:
                comp = []
                while True:
                    w = st.pop()
                    onstack[w] = False
                    comp.append(w)
                    if w == v:
                        break
                comps.append(comp)
    return comps


class Product(object):
    """Product of nk with the valuations of the elementary formulas of the
    path formula g (leaves = maximal state subformulas with given masks)."""

    def __init__(self, nk, g, leaf_mask, fair=None, cap_nodes=1 << 14):
        self.nk = nk
        self.g = g
        # post-order list of distinct subformulas
        order = []
        seen = {}

        def visit(t):
            if t in seen:
                return
            if not is_state_tree(t):
                for c in t[1:]:
                    visit(c)
            seen[t] = len(order)
            order.append(t)
        visit(g)
        self.order = order
        self.pos = seen
        # elementary formulas: one bit per temporal subformula
        self.elem = [t for t in order
                     if (not is_state_tree(t)) and t[0] in TEMPORAL]
        self.ebit = {t: i for i, t in enumerate(self.elem)}
        k = len(self.elem)
        self.k = k
        n = nk.n
        if n * (1 << k) > cap_nodes:
            raise RefSkip('product too large: n=%d k=%d' % (n, k))
        self.nv = 1 << k
        nnodes = n * self.nv
        self.nnodes = nnodes
        # truth[node] = bitmask over positions in `order`
        truth = [0] * nnodes
        sig = [0] * nnodes
        pos = self.pos
        ebit = self.ebit
        plan = []
        for p, t in enumerate(order):
            if is_state_tree(t):
                plan.append(('leaf', p, leaf_mask(t)))
            else:
                op = t[0]
                kids = tuple(pos[c] for c in t[1:])
                plan.append((op, p, kids, ebit.get(t)))
        # target of each elementary bit: the formula whose truth at the
        # successor must equal the bit
        target = []
        for t in self.elem:
            target.append(pos[t[1]] if t[0] == 'X' else pos[t])
        for s in range(n):
            for v in range(self.nv):
                tr = 0
                for item in plan:
                    op = item[0]
                    p = item[1]
                    if op == 'leaf':
                        val = item[2] >> s & 1
                    else:
                        kids = item[2]
                        if op == 'not':
                            val = not (tr >> kids[0] & 1)
                        elif op == 'or':
                            val = any(tr >> c & 1 for c in kids)
                        elif op == 'and':
                            val = all(tr >> c & 1 for c in kids)
                        elif op == 'imply':
                            val = (not (tr >> kids[0] & 1)) or \
                                (tr >> kids[1] & 1)
                        else:
                            nxt = v >> item[3] & 1
                            if op == 'X':
                                val = nxt
                            elif op == 'F':
                                val = (tr >> kids[0] & 1) or nxt
                            elif op == 'G':
                                val = (tr >> kids[0] & 1) and nxt
                            elif op == 'U':
                                val = (tr >> kids[1] & 1) or \
                                    ((tr >> kids[0] & 1) and nxt)
                            elif op == 'R':
                                val = (tr >> kids[1] & 1) and \
                                    ((tr >> kids[0] & 1) or nxt)
                            else:
                                raise RefError('bad op %r' % (op,))
                    if val:
                        tr |= 1 << p
                node = s * self.nv + v
                truth[node] = tr
                sg = 0
                for e, tp in enumerate(target):
                    if tr >> tp & 1:
                        sg |= 1 << e
                sig[node] = sg
        self.truth = truth
        # group nodes of each state by signature
        bysig = [dict() for _ in range(n)]
        for s in range(n):
            d = bysig[s]
            base = s * self.nv
            for v in range(self.nv):
                d.setdefault(sig[base + v], []).append(base + v)
        self.bysig = bysig
        succ_states = [[j for j in range(n) if nk.succ[i] >> j & 1]
                       for i in range(n)]
        self.succ_states = succ_states
        self._succ_cache = {}
        # acceptance sets (as predicates on truth masks / states)
        acc = []
        for t in self.elem:
            p = pos[t]
            if t[0] == 'U':
                acc.append(('t', p, pos[t[2]], True))
            elif t[0] == 'F':
                acc.append(('t', p, pos[t[1]], True))
            elif t[0] == 'G':
                acc.append(('t', p, pos[t[1]], False))
            elif t[0] == 'R':
                acc.append(('t', p, pos[t[2]], False))
        self.acc = acc
        self.fair = list(fair) if fair is not None else []

    def succ_of(self, node):
        c = self._succ_cache.get(node)
        if c is None:
            s, v = divmod(node, self.nv)
            c = []
            for j in self.succ_states[s]:
                c.extend(self.bysig[j].get(v, ()))
            self._succ_cache[node] = c
        return c

    def _in_acc(self, a, node):
        tr = self.truth[node]
        _, p, q, positive = a
        if positive:   # U / F :  not phi  or  goal
            return (not (tr >> p & 1)) or bool(tr >> q & 1)
        return bool(tr >> p & 1) or (not (tr >> q & 1))

    def accepting_components(self):
        comps = _tarjan(self.nnodes, self.succ_of)
        good = []
        for comp in comps:
            if len(comp) == 1:
                v = comp[0]
                if v not in self.succ_of(v):
                    continue
            ok = True
            for a in self.acc:
                if not any(self._in_acc(a, x) for x in comp):
                    ok = False
                    break
            if ok:
                for fm in self.fair:
                    if not any(fm >> (x // self.nv) & 1 for x in comp):
                        ok = False
                        break
            if ok:
                good.append(comp)
        return good

    def solve(self):
        """Mask of states with a (fair) path satisfying g, plus data for
        witness extraction."""
        good = self.accepting_components()
        self.good = good
        goodset = set()
        comp_of = {}
        for ci, comp in enumerate(good):
            for x in comp:
                goodset.add(x)
                comp_of[x] = ci
        self.comp_of = comp_of
        # backward reachability
        pred = [[] for _ in range(self.nnodes)]
        for x in range(self.nnodes):
            for y in self.succ_of(x):
                pred[y].append(x)
        reach = set(goodset)
        stack = list(goodset)
        while stack:
            y = stack.pop()
            for x in pred[y]:
                if x not in reach:
                    reach.add(x)
                    stack.append(x)
        self.reach = reach
        gp = self.pos[self.g]
        mask = 0
        self.start = {}
        for x in reach:
            if self.truth[x] >> gp & 1:
                s = x // self.nv
                mask |= 1 << s
                self.start.setdefault(s, x)
        return mask

    # -- witness -----------------------------------------------------------
    def _path1(self, src, goal, allowed=None):
        """Shortest path [src, ..., x] with at least one edge and goal(x)."""
        prev = {}
        q = []
        for y in self.succ_of(src):
            if allowed is not None and y not in allowed:
                continue
            if y not in prev:
                prev[y] = None
                q.append(y)
        qi = 0
        while qi < len(q):
            x = q[qi]
            qi += 1
            if goal(x):
                path = [x]
                while prev[path[-1]] is not None:
                    path.append(prev[path[-1]])
                return [src] + path[::-1]
            for y in self.succ_of(x):
                if allowed is not None and y not in allowed:
                    continue
                if y not in prev:
                    prev[y] = x
                    q.append(y)
        return None

    def _path0(self, src, goal, allowed=None):
        if goal(src):
            return [src]
        return self._path1(src, goal, allowed)

    def lasso(self, s):
        """(u, v) lists of state indices: a path u.v^omega from state s that
        satisfies g (and fairness). Requires solve() first."""
        x0 = self.start[s]
        prefix = self._path0(x0, lambda x: x in self.comp_of)
        entry = prefix[-1]
        comp = set(self.good[self.comp_of[entry]])
        cyc = [entry]
        goals = [(lambda x, a=a: self._in_acc(a, x)) for a in self.acc]
        goals += [(lambda x, fm=fm: bool(fm >> (x // self.nv) & 1))
                  for fm in self.fair]
        for gl in goals:
            if any(gl(x) for x in cyc):
                continue
            p = self._path0(cyc[-1], gl, comp)
            cyc.extend(p[1:])
        p = self._path1(cyc[-1], lambda x: x == entry, comp)
        if p is None:
            raise RefError('cannot close cycle')
        cyc.extend(p[1:])
        u = [x // self.nv for x in prefix[:-1]]
        v = [x // self.nv for x in cyc[:-1]]
        return u, v


class Star(object):
    """CTL* evaluator over one neutral structure (memoised)."""

    def __init__(self, nk, fair=None, atoms_need_fair=True, cap_nodes=1 << 14,
                 bool_is_atom=True):
        self.nk = nk
        self.cap = cap_nodes
        self.memo = {}
        self.products = {}
        self.fair = None
        self.fairmask = nk.full
        self.bool_is_atom = bool_is_atom
        if fair is not None:
            self.fair = [nk.mask_of(x for x in P if x in nk.idx)
                         if not isinstance(P, int) else P for P in fair]
            self.fairmask = fair_states(nk, self.fair)
        self.atoms_need_fair = atoms_need_fair and fair is not None

    def sat(self, t):
        m = self.memo.get(t)
        if m is not None:
            return m
        nk = self.nk
        full = nk.full
        op = t[0]
        if op == 'bool':
            r = full if t[1] else 0
            if self.atoms_need_fair and self.bool_is_atom:
                r &= self.fairmask
        elif op == 'ap':
            r = nk.label_mask(t[1])
            if self.atoms_need_fair:
                r &= self.fairmask
        elif op == 'E':
            r = self.exists(t[1])
        elif op == 'A':
            r = full & ~self.exists(('not', t[1]))
        elif op in TEMPORAL:
            raise RefError('path formula where a state formula is needed: %r'
                           % (t,))
        elif not is_state_tree(t):
            raise RefError('path formula where a state formula is needed: %r'
                           % (t,))
        elif op == 'not':
            r = full & ~self.sat(t[1])
        elif op == 'or':
            r = 0
            for c in t[1:]:
                r |= self.sat(c)
        elif op == 'and':
            r = full
            for c in t[1:]:
                r &= self.sat(c)
        elif op == 'imply':
            r = (full & ~self.sat(t[1])) | self.sat(t[2])
        else:
            raise RefError('bad tree %r' % (t,))
        self.memo[t] = r
        return r

    def exists(self, g):
        P = Product(self.nk, g, self.sat, self.fair, self.cap)
        m = P.solve()
        self.products[g] = P
        return m

    def witness(self, g, s):
        """Lasso (u, v) from state index s satisfying path formula g; only
        valid when s is in exists(g)."""
        P = self.products.get(g)
        if P is None:
            self.exists(g)
            P = self.products[g]
        return P.lasso(s)


def star(nk, t, fair=None, **kw):
    return Star(nk, fair, **kw).sat(t)


def fair_states(nk, fairmasks):
    """States from which some path visits every mask infinitely often:
    backward closure of the non-trivial SCCs meeting every mask."""
    n = nk.n
    succ = [[j for j in range(n) if nk.succ[i] >> j & 1] for i in range(n)]
    comps = _tarjan(n, lambda i: succ[i])
    good = 0
    for comp in comps:
        if len(comp) == 1 and not (nk.succ[comp[0]] >> comp[0] & 1):
            continue
        cm = 0
        for x in comp:
            cm |= 1 << x
        if all(cm & fm for fm in fairmasks):
            good |= cm
    # backward closure
    z = good
    while True:
        nz = z | _pre_e(nk, z)
        if nz == z:
            return z
        z = nz


def certify_top(S, t):
    """Lasso certificates for a top-level quantified formula.

    For t = E g every state of S.sat(t) must come with a path u.v^omega of the
    structure that starts there, satisfies g under the independent evaluator
    pathsem (nested state subformulas read from S) and, under fairness, whose
    loop v meets every constraint; for t = A g every state outside S.sat(t)
    must come with such a path for not g.  Returns the number of certificates
    checked; raises RuntimeError when the reference contradicts itself."""
    from . import pathsem
    if t[0] not in ('A', 'E'):
        return 0
    nk = S.nk
    val = S.sat(t)
    if t[0] == 'E':
        g = t[1]
        mask = val
    else:
        g = ('not', t[1])
        mask = nk.full & ~val
    if S.atoms_need_fair:
        # inside a fair path every state is fair: atoms read plainly
        inner = Star(nk, fair=S.fair, atoms_need_fair=True,
                     cap_nodes=S.cap)
    else:
        inner = S

    def leaf(x, s):
        return bool(inner.sat(x) >> s & 1)
    n = 0
    if g not in S.products:
        S.exists(g)
    for s in range(nk.n):
        if not mask >> s & 1:
            continue
        u, v = S.witness(g, s)
        path = u + v
        ok = path[0] == s and all(
            nk.succ[a] >> b & 1 for a, b in zip(path, path[1:] + [v[0]]))
        if ok and S.fair:
            vm = 0
            for x in v:
                vm |= 1 << x
            ok = all(vm & fm for fm in S.fair)
        ok = ok and pathsem.holds_on_lasso(g, u, v, leaf)
        if not ok:
            raise RuntimeError('reference certificate failed: %r %r %r %r'
                               % (nk.to_json(), t, u, v))
        n += 1
    return n


def fair_states_bruteforce(nk, fairmasks, maxlen=None):
    """Fair states by lasso enumeration (independent of the SCC argument):
    s is fair iff some lasso from s has a loop meeting every mask."""
    from . import pathsem
    if maxlen is None:
        maxlen = nk.n * (len(fairmasks) + 1) + 1
    out = 0
    for s in range(nk.n):
        for (u, v) in pathsem.all_lassos_of(nk, s, maxlen):
            vm = 0
            for x in v:
                vm |= 1 << x
            if all(vm & fm for fm in fairmasks):
                out |= 1 << s
                break
    return out
