"""C15 -- fairness restricts path quantifiers to fair paths.

Monitors
 c15.fair_states   post-condition on every Kripke.get_fair_states return
                   (direct calls and those made by label_fair_states inside
                   the checkers) against refsem.fair_states
 c15.modelcheck    every top-level modelcheck call with F = list of state sets
                   against the Clarke-Grumberg-Peled fair semantics
                   (refsem.Star with fairness as extra acceptance sets; atoms
                   hold only in fair states)
 c15.unconstrained relation monitor: F = [] and F = [all states] give the
                   answer of the call without F
 c15.purity        K unchanged by calls with F (also when they raise)
 c15.no_error      no exception for a well-formed (K, formula, F)

This part of pyModelChecking is broken in four independent, *known* ways (D4,
D5, D6, D7 in known_findings.json).  A failing execution is attributed to one
of them only if vmon/defects.py -- an executable transcription of what the
defective mechanism computes -- reproduces the observed outcome exactly;
anything that equals neither the reference nor the defect model is a
VIOLATION.
"""

import sys

from .. import mon, mcwrap, refsem, reflang, gen, mcwork, defects, probes
from ..mon import LOG
from ..neutral import (show, NK, nk_of, build, lang, snapshot_diff,
                       same_structure)

PROP = 'C15'

CONFIG = {
    'technique': ('runtime monitors on get_fair_states and on every '
                  'modelcheck call with F against a fair-path reference '
                  '(fairness as Buchi acceptance sets); failing executions '
                  'classified by executable models of the known defects; '
                  'purity and F-equivalence relations always enforced'),
    'level_text': ('Every get_fair_states return and every modelcheck call '
                   'with fairness constraints observed (class representatives '
                   'with <=3 states x lists of <=2 constraint sets x '
                   'depth-<=1 formulas of each logic without Boolean '
                   'constants; structures with a fair and an unfair cycle; '
                   'seeded random ones) is judged against the fair semantics. '
                   'Known defects are reported as KNOWN-FINDING only when '
                   'their executable model reproduces the observation.'
                   ' Also (round 6): related constraint families (equal-but-distinct duplicates, the same object twice, implied supersets, reversed lists).'),
    'level_note': ('Trusted base: refsem.Star with fairness (lasso-certified '
                   'in C02\'s check), refsem.fair_states, the defect models '
                   'in vmon/defects.py (they decide only between '
                   'KNOWN-FINDING and VIOLATION, never make a failing '
                   'execution pass unreported).'),
    'deciding': ['c15.fair_states', 'c15.modelcheck', 'c15.unconstrained',
                 'c15.purity'],
    'shards': {'quick': 16, 'thorough': 16},
    'hashseeds': {'quick': 2, 'thorough': 4},
    'min_evals': {'quick': {'c15.fair_states': 10000, 'c15.modelcheck': 8000,
                            'c15.purity': 8000, 'c15.unconstrained': 1000,
                            'c15.certificate': 1000,
                            'c15.fair_states_bruteforce': 1000},
                  'thorough': {'c15.modelcheck': 200000}},
    'must_sig': ['fair_states:agree', 'mc:agree', 'mc:CTL', 'mc:CTLS',
                 'mc:LTL', 'F:empty_list', 'F:all_states', 'F:two_sets',
                 'shape:fair_and_unfair_cycle', 'fairset:proper',
                 'labels:fair_lookalikes', 'shape:two_lobes',
                 'F:related_variant'],
    'rule': ('cases = (structure, F, formula, logic); structures: class '
             'representatives with <=2 states (all) and 3 states (sample; all '
             'in thorough), hand-built structures where a fair SCC sits next '
             'to an unfair self-loop, seeded random ones (<=5 states); F: '
             'every list of <=2 constraint sets drawn from the subsets of '
             'the states (sampled), plus [] and [S]; formulas: depth-<=1 '
             'formulas of CTL, LTL (A g) and a CTL* family, without Boolean '
             'constants, and random deeper ones. non-trivial = the reference '
             'fair answer differs from the unconstrained answer, or the '
             'reference fair-state set is a proper non-empty subset; '
             'distinct by digest of (structure, F, formula, logic)'),
    'exhaustive': {'quick': False, 'thorough': False},
    'assumptions': ['F is a list of sets of states; formulas contain no '
                    'Boolean constants (their reading under fairness is '
                    'ambiguous)'],
}

_last_fs = []        # results of get_fair_states since the last reset
_orig = {}


def has_bool(t):
    return defects.contains(t, lambda x: x[0] == 'bool')


# ---- get_fair_states -------------------------------------------------------

def _wrap_gfs(orig):
    def get_fair_states(self, F):
        site = mon.caller_site(2)
        if hasattr(F, '__next__'):
            F = list(F)          # one-shot iterator: the monitor reads it too
        try:
            nk = nk_of(self)
            Fl = list(F)
            ok_domain = all(isinstance(P, (set, frozenset)) for P in Fl)
        except Exception:
            return orig(self, F)
        err = None
        res = None
        try:
            res = orig(self, F)       # the caller's own container
        except BaseException as e:
            err = e
        if ok_domain:
            judge_gfs(self, nk, Fl, res, err, site)
        if err is not None:
            raise err
        return res
    return get_fair_states


def judge_gfs(K, nk, Fl, res, err, site):
    LOG.hit('c15.fair_states', site)
    masks = [nk.mask_of(x for x in P if x in nk.idx) for P in Fl]
    exp = refsem.fair_states(nk, masks)
    case = {'K': nk.to_json(), 'F': [sorted(map(repr, P)) for P in Fl],
            'site': site}
    if err is not None:
        LOG.violation('c15.fair_states', PROP, case,
                      'raised ' + mon.fmt_exc(err),
                      sorted(map(repr, nk.set_of(exp))), note='exception')
        _last_fs.append(None)
        return
    try:
        obs = nk.mask_of(x for x in res)
    except Exception:
        LOG.violation('c15.fair_states', PROP, case, repr(res)[:200],
                      sorted(map(repr, nk.set_of(exp))),
                      note='result is not a set of states')
        _last_fs.append(None)
        return
    _last_fs.append(obs)
    if exp not in (0, nk.full):
        LOG.sig['fairset:proper'] += 1
        LOG.mark_nontrivial(('fs', nk.key(), tuple(masks)))
    if obs == exp and isinstance(res, set):
        LOG.sig['fair_states:agree'] += 1
        return
    finding = None
    try:
        m1 = defects.m1_fair_states(K, Fl, _orig['compute_SCCs'])
        if nk.mask_of(m1) == obs:
            finding = 'D4'
    except Exception:
        pass
    LOG.violation('c15.fair_states', PROP, case,
                  sorted(map(repr, nk.set_of(obs))),
                  sorted(map(repr, nk.set_of(exp))),
                  note='fair states differ from "some path visits every set '
                       'infinitely often"', extra={'finding': finding})


# ---- modelcheck with F -----------------------------------------------------

def _with_fair_label(nk, mask):
    labels = [set(l) for l in nk.labels]
    for i in range(nk.n):
        if mask >> i & 1:
            labels[i].add(defects.FAIR[1])
    return NK(nk.states, nk.succ, labels)


def pre_judge(c):
    """runs as first judge: forget fair sets of earlier calls"""
    pass


def judge(c):
    if c.nested or c.nk is None or c.F is None:
        return
    if c.Fmasks is None or not all(isinstance(P, (set, frozenset))
                                   for P in c.F):
        LOG.counters['c15.F_out_of_domain'] += 1
        return
    nk = c.nk
    # purity
    LOG.hit('c15.purity', c.site)
    if not same_structure(c.pre, c.post):
        LOG.violation('c15.purity', PROP, c.case(),
                      {'changed': snapshot_diff(c.pre, c.post or {})},
                      'structure unchanged',
                      note='modelcheck with F modified the caller\'s K')
    t = c.denoted()
    if t is None or not reflang.well_formed(t) or \
            not reflang.checkable(t, c.logic) or has_bool(t):
        LOG.counters['c15.formula_out_of_domain'] += 1
        return
    fs_obs = _last_fs[-1] if _last_fs else None
    try:
        S = refsem.Star(nk, fair=c.Fmasks, cap_nodes=1 << 13)
        exp = S.sat(t)
        unc = refsem.Star(nk, cap_nodes=1 << 13).sat(t)
    except refsem.RefSkip:
        LOG.skipped['c15.reference_cap'] += 1
        return
    LOG.hit('c15.modelcheck', c.site)
    LOG.sig['mc:' + c.logic] += 1
    fs_ref = S.fairmask
    if c.seq % 4 == 0:
        # oracle self-checks: fair lasso certificates for the top-level
        # quantifier, and the fair-state set by brute-force lasso enumeration
        for _ in range(refsem.certify_top(S, t)):
            LOG.hit('c15.certificate')
        if nk.n <= 3 and len(c.Fmasks) <= 2:
            LOG.hit('c15.fair_states_bruteforce')
            if refsem.fair_states_bruteforce(nk, c.Fmasks) != fs_ref:
                raise RuntimeError('reference fair_states disagrees with '
                                   'lasso enumeration on %r %r'
                                   % (nk.to_json(), c.Fmasks))
    if exp != unc or fs_ref not in (0, nk.full):
        LOG.mark_nontrivial(('mc', nk.key(), tuple(c.Fmasks), t, c.logic))
    expl = sorted(i for i in range(nk.n) if exp >> i & 1)
    case = c.case()
    case['fair_states_observed'] = None if fs_obs is None else \
        [i for i in range(nk.n) if fs_obs >> i & 1]
    case['fair_states_reference'] = [i for i in range(nk.n)
                                     if fs_ref >> i & 1]
    # what the known-defective mechanism yields on this input
    model = None
    model_raises = False
    if c.logic == 'LTL':
        model_raises = True                      # D6
    else:
        try:
            tree = defects.m_ctl(t) if c.logic == 'CTL' else \
                defects.m_ctls(t)
            if fs_obs is not None:
                model = refsem.Star(_with_fair_label(nk, fs_obs),
                                    cap_nodes=1 << 13).sat(tree)
        except defects.ModelTypeError:
            model_raises = True                  # D5
        except (refsem.RefSkip, ValueError):
            model = None
    if c.raised is not None:
        LOG.hit('c15.no_error', c.site)
        finding = None
        if isinstance(c.raised, TypeError) and model_raises:
            finding = 'D6' if c.logic == 'LTL' else 'D5'
        LOG.violation('c15.no_error', PROP, case,
                      'raised ' + mon.fmt_exc(c.raised), expl,
                      note='exception on a well-formed fair query',
                      extra={'finding': finding,
                             'tb': mon.short_tb(c.raised)})
        return
    LOG.hit('c15.no_error', c.site)
    obs = c.result_mask
    if c.result_bad is None and obs == exp:
        LOG.sig['mc:agree'] += 1
        return
    finding = None
    if c.result_bad is None and model is not None and obs == model and \
            not model_raises:
        if fs_obs != fs_ref:
            finding = 'D4'
        else:
            finding = 'D7'
            if c.logic == 'CTLS':
                # D15: CTL* conjoins every quantified subformula with `fair`,
                # so A g is false where no fair path starts.  If the model
                # without that conjunction gives the reference answer, the
                # deviation is D15 alone.
                try:
                    alt = refsem.Star(
                        _with_fair_label(nk, fs_obs), cap_nodes=1 << 13).sat(
                        defects.m_ctls(t, quantified_and_fair=False))
                    if alt == exp:
                        finding = 'D15'
                except Exception:
                    pass
    LOG.violation('c15.modelcheck', PROP, case,
                  c.result_bad or sorted(i for i in range(nk.n)
                                         if obs >> i & 1), expl,
                  note='answer differs from the fair semantics '
                       '(unconstrained answer: %s; defect model: %s)' % (
                           [i for i in range(nk.n) if unc >> i & 1],
                           None if model is None else
                           [i for i in range(nk.n) if model >> i & 1]),
                  extra={'finding': finding})


def attach():
    mcwrap.attach()

    def do():
        km = sys.modules['pyModelChecking.kripke']
        gm = sys.modules['pyModelChecking.graph']
        _orig['compute_SCCs'] = gm.compute_SCCs
        K = km.Kripke
        orig = K.__dict__['get_fair_states']
        K.get_fair_states = _wrap_gfs(orig)
        m = sys.modules['pyModelChecking.CTLS.model_checking']
        m.print = lambda *a, **k: None
        probes.watch([('get_fair_states', orig),
                      ('label_fair_states', K.__dict__['label_fair_states'])])
        return True
    mon.attach_once('c15', do)
    if judge not in mcwrap.judges:
        mcwrap.judges.append(judge)


# ---- workload ----

def fair_unfair_structures():
    """A fair SCC next to an unfair cycle, in several arrangements."""
    P, Q, N, PQ = {'p'}, {'q'}, set(), {'p', 'q'}
    out = []
    # 0: self-loop (unfair if F={1,2}); 0 -> 1 <-> 2 (fair SCC)
    out.append((NK(range(3), [0b011, 0b100, 0b010], [P, P, Q]),
                [[{1}], [{2}], [{0}], [{1}, {2}], [{0}, {1}]]))
    # two self-loop states and a 2-cycle
    out.append((NK(range(4), [0b0011, 0b0110, 0b1000, 0b0100],
                   [P, N, Q, PQ]),
                [[{0}], [{1}], [{2, 3}], [{2}, {3}], [{0}, {3}], [{1, 2}]]))
    # chain into a 3-cycle with a p-self-loop on the way
    out.append((NK(range(5), [0b00010, 0b00110, 0b01000, 0b10000, 0b00100],
                   [P, P, Q, N, PQ]),
                [[{1}], [{2}], [{3, 4}], [{2}, {4}], [{0}], [{1}, {2}]]))
    # first-enumerated node with a self-loop inside a big SCC
    out.append((NK(range(3), [0b011, 0b100, 0b001], [P, Q, N]),
                [[{0}], [{1}], [{2}], [{0}, {2}]]))
    out.append((NK(range(2), [0b11, 0b11], [P, Q]),
                [[{0}], [{1}], [{0}, {1}]]))
    return out


def two_lobes(r):
    """Two (or three) candidate components, each with >= 2 states and
    self-loops (the shape even the known-defective fair-SCC test accepts),
    meeting different constraint sets; listed in a random order so that the
    enumeration order of the components varies."""
    k = r.choice([2, 2, 3])
    n = 2 * k + r.randint(0, 1)
    succ = [0] * n
    for c in range(k):
        a, b = 2 * c, 2 * c + 1
        succ[a] |= (1 << a) | (1 << b)
        succ[b] |= (1 << a) | (1 << b) if r.random() < 0.7 else (1 << a)
    for c in range(k - 1):
        if r.random() < 0.6:
            succ[2 * c + 1] |= 1 << (2 * c + 2)       # lobe c -> lobe c+1
    if n > 2 * k:
        succ[n - 1] = 1 << r.randrange(n - 1)          # a transient state
    perm = list(range(n))
    r.shuffle(perm)
    # relabel so that listing order differs from construction order
    succ2 = [0] * n
    for i in range(n):
        m = 0
        for j in range(n):
            if succ[i] >> j & 1:
                m |= 1 << perm[j]
        succ2[perm[i]] = m
    labels = [frozenset(a for a in ('p', 'q') if r.random() < 0.5)
              for _ in range(n)]
    nk = NK(range(n), succ2, labels)
    lobes = [[perm[2 * c], perm[2 * c + 1]] for c in range(k)]
    Fs = []
    for c in range(k):
        Fs.append([{lobes[c][0]}])
        Fs.append([{lobes[c][1]}])
    for c in range(k):
        for d in range(k):
            if c != d:
                Fs.append([{lobes[c][0]}, {lobes[d][1]}])
    Fs.append([{lobes[0][0], lobes[1][0]}])
    Fs.append([{lobes[0][0], lobes[1][1]}, {lobes[1][0]}])
    return nk, Fs


def f_lists(r, nk, k):
    """k lists of <=2 constraint sets over the states + the trivial ones."""
    states = list(nk.states)
    out = [[], [set(states)]]
    subsets = [set(states[i] for i in range(nk.n) if m >> i & 1)
               for m in range(1, 1 << nk.n)]
    for _ in range(k):
        n = r.choice([1, 1, 2, 2, 3])
        F = [set(r.choice(subsets)) for _ in range(n)]
        x = r.random()
        if x < 0.15:
            F = [frozenset(P) for P in F]          # frozenset constraints
        elif x < 0.3:
            F[0] = set(F[0]) | {'__not_a_state__'}  # a non-state in a set
        out.append(F)
    return out


def formulas():
    p, q = ('ap', 'p'), ('ap', 'q')
    leaves = (p, q)
    C1 = [t for t in gen.enum_ctl(1, leaves) if True]
    P1 = gen.enum_ltl_path(1, leaves)
    fam = [t for t in gen.enum_ctls_small(leaves)]
    return C1, P1, fam


_parsers = {}


def call(logic, K, t, F, i):
    L = lang(logic)
    del _last_fs[:]
    try:
        if i % 5 == 0:
            s = mcwork.formula_arg(logic, t, 'text')
            if logic not in _parsers:
                _parsers[logic] = L.Parser()
            return L.modelcheck(K, s, parser=_parsers[logic], F=F)
        return L.modelcheck(K, build(L, t, raw_leaves=(i % 2 == 0)), F=F)
    except Exception as e:
        return e


def with_fair_lookalikes(nk, r):
    """Labels that collide with the names label_fair_states would pick
    ('fair', 'fair0', ...), placed on random states."""
    labels = []
    for l in nk.labels:
        l = set(l)
        for name in ('fair', 'fair0', 'fair1'):
            if r.random() < 0.5:
                l.add(name)
        labels.append(l)
    # make sure 'fair' and 'fair0' both occur somewhere
    labels[0].add('fair')
    labels[-1].add('fair0')
    return NK(nk.states, nk.succ, labels)


def f_variants(F, nk):
    """Lists that denote the same or a closely related family: a constraint
    repeated as an equal but distinct object, the very same object listed
    twice, a superset of a listed constraint added (implied by it), the list
    reversed, one constraint three times.  Anything that prunes, deduplicates
    or indexes constraints has to get these right."""
    F = [set(P) for P in F]
    if not F:
        return []
    sts = list(nk.states)
    sup = set(F[0]) | {sts[(len(F[0]) + len(F)) % len(sts)]}
    return [F + [set(F[0])],
            (lambda G: G + [G[-1]])([set(P) for P in F]),
            [set(P) for P in F] + [sup],
            [sup] + [set(P) for P in F],
            [set(P) for P in reversed(F)],
            [set(F[0]), set(F[0]), set(F[0])]]


def drive(nk, Fs, ts, i0, ctx):
    if i0 % 3 == 1:
        LOG.sig['labels:fair_lookalikes'] += 1
        nk = with_fair_lookalikes(nk, gen.rng(ctx.seed, PROP, ('lk', i0)))
    K = mcwork.kripke_of(nk)
    i = i0
    extra = []
    for j, F in enumerate(Fs):
        vs = f_variants(F, nk)
        for V in vs:
            # the get_fair_states monitor judges each of these returns
            LOG.sig['F:related_variant'] += 1
            try:
                K.get_fair_states(V)
            except Exception:
                pass
        if vs and (i0 + j) % 3 == 0:
            extra.append(vs[(i0 + j) // 3 % len(vs)])
    Fs = list(Fs) + extra
    for F in Fs:
        try:
            K.get_fair_states([set(P) for P in F])
        except Exception:
            pass
        if not F:
            LOG.sig['F:empty_list'] += 1
        elif len(F) == 1 and set(F[0]) == set(nk.states):
            LOG.sig['F:all_states'] += 1
        elif len(F) == 2:
            LOG.sig['F:two_sets'] += 1
        for logic, t in ts:
            res = call(logic, K, t, [type(P)(P) for P in F], i)
            if (not F or (len(F) == 1 and set(F[0]) == set(nk.states))):
                # F satisfied by every path: must equal the call without F
                base = call(logic, K, t, None, 1)
                LOG.hit('c15.unconstrained')
                same = (isinstance(res, set) and isinstance(base, set) and
                        res == base)
                if not same:
                    fs_obs = _last_fs[-1] if _last_fs else None
                    finding = None
                    if isinstance(res, TypeError):
                        finding = 'D6' if logic == 'LTL' else (
                            'D5' if defects.contains(
                                t, lambda x: x[0] == 'E' and x[1][0] == 'R')
                            else None)
                    elif isinstance(res, set) and isinstance(base, set):
                        # explained by D4 only if the fair set really was
                        # not "all states" and matched the defect model
                        m1 = defects.m1_fair_states(K, [set(P) for P in F],
                                                    _orig['compute_SCCs'])
                        if set(m1) != set(nk.states):
                            finding = 'D4'
                    LOG.violation('c15.unconstrained', PROP,
                                  {'K': nk.to_json(), 'logic': logic,
                                   'formula': t,
                                   'F': [sorted(map(repr, P)) for P in F]},
                                  sorted(map(repr, res))
                                  if isinstance(res, set)
                                  else mon.fmt_exc(res),
                                  sorted(map(repr, base))
                                  if isinstance(base, set)
                                  else mon.fmt_exc(base),
                                  note='F satisfied by every path changed '
                                       'the answer',
                                  extra={'finding': finding})
            i += 1
    if i0 % 37 == 0:
        LOG.sample({'K': nk.to_json(),
                    'F': [sorted(map(repr, P)) for P in Fs[-1]],
                    'formulas': [show(t) for _, t in ts[:3]]})
    return i


def run(ctx):
    attach()
    r = gen.rng(ctx.seed, PROP, 'main')
    C1, P1, fam = formulas()
    reps = {n: list(gen.representatives(n)) for n in (1, 2, 3)}
    if ctx.quick:
        structs = reps[1] + reps[2] + r.sample(reps[3], 40)
        nf, nform, nrand = 3, 14, 120
    else:
        structs = reps[1] + reps[2] + reps[3]
        nf, nform, nrand = 5, 30, 8000
    i = 0
    for si, (nk, Fl) in enumerate(fair_unfair_structures()):
        LOG.sig['shape:fair_and_unfair_cycle'] += 1
        if not ctx.mine(si):
            continue
        ts = [('CTL', t) for t in C1] + [('LTL', ('A', g)) for g in P1[::3]] \
            + [('CTLS', t) for t in fam[::5]]
        i = drive(nk, [[set(P) for P in F] for F in Fl] + [[], [set(
            nk.states)]], ts, i, ctx)
    for k in range(160 if ctx.quick else 6000):
        rr = gen.rng(ctx.seed, PROP, ('lobes', k))
        nk, Fl = two_lobes(rr)
        if not ctx.mine(k):
            continue
        LOG.sig['shape:two_lobes'] += 1
        ts = [('CTL', t) for t in rr.sample(C1, 6)] + \
            [('CTLS', t) for t in rr.sample(fam, 3)]
        i = drive(nk, rr.sample(Fl, min(len(Fl), 6)), ts, i, ctx)
    for si, nk in enumerate(structs):
        rr = gen.rng(ctx.seed, PROP, si)
        if not ctx.mine(si):
            continue
        ts = [('CTL', t) for t in rr.sample(C1, nform)] + \
            [('LTL', ('A', g)) for g in rr.sample(P1, 3)] + \
            [('CTLS', t) for t in rr.sample(fam, nform // 2)] + \
            [('CTLS', t) for t in rr.sample(C1, 4)]
        i = drive(nk, f_lists(rr, nk, nf), ts, i, ctx)
    for k in range(nrand):
        nk = gen.random_structure(r, 5, atoms=('p', 'q'))
        rr = gen.rng(ctx.seed, PROP, ('r', k))
        if not ctx.mine(k):
            continue
        ts = [('CTL', gen.random_ctl(rr, rr.randint(1, 3), ('p', 'q'),
                                     pbool=0)) for _ in range(5)] + \
            [('CTLS', gen.random_ctls_state(rr, 3, ('p', 'q'), pbool=0))
             for _ in range(3)] + \
            [('LTL', ('A', gen.random_ltl_path(rr, 2, ('p', 'q'), pbool=0,
                                               max_temporal=2)))]
        i = drive(nk, f_lists(rr, nk, 3), ts, i, ctx)
    ctx.extra['reach'] = probes.result()


def finalize(reports, ctx):
    merged = probes.merge([r['extra'].get('reach', {}) for r in reports])
    return {'coverage': {'reach': {k: {'lines': v['lines'], 'hit': v['hit'],
                                       'never_reached': v['never_reached']}
                                   for k, v in merged.items()}}}


def replay(ctx, rep):
    attach()
    c = rep['case']
    from ..mcwork import to_tuple, nk_from_json
    nk = nk_from_json(c['K'])
    K = mcwork.kripke_of(nk)
    F = c.get('F')
    Fs = [set(eval(x) for x in P) for P in F] if isinstance(F, list) else None
    if 'logic' in c and c.get('formula') is not None:
        res = call(c['logic'], K, to_tuple(c['formula']), Fs, 1)
    elif Fs is not None:
        K.get_fair_states(Fs)
