"""C01 -- CTL model checking returns exactly the satisfying states.

Deciding monitor  c01.modelcheck : on every return of CTL.modelcheck (top level
or nested inside CTLS) with F=None and a CTL state formula, the returned set
must equal refsem.ctl on the structure as it was *before* the call.
Diagnostic monitors: c01.memo (every entry of the memo table L at exit equals
the reference for that subformula), c01.op.<name> (each _check* return).
"""

import sys

from .. import mon, mcwrap, refsem, reflang, gen, probes, mcwork
from ..mon import LOG
from ..neutral import tree_of, show, height, NK

PROP = 'C01'

CONFIG = {
    'technique': ('runtime monitor: postcondition on every CTL.modelcheck '
                  'return vs an executable fix-point reference; memo-table '
                  'coherence monitor; sys.monitoring reach probes'),
    'level_text': ('Every return of the real CTL.modelcheck (top-level and '
                   'nested calls) observed during enumerated small-scope and '
                   'seeded random workloads is judged against an independent '
                   'fix-point reference; exhaustive for the <=3-state/2-atom '
                   'scope in the thorough tier, sampled beyond. Held = no '
                   'observed execution deviated; nothing is claimed about '
                   'inputs not run.'
                   ' Also: histories that modify one structure in place between'
                   ' queries, families of subformulas that differ only by a'
                   ' trailing operand, a stream of 6-9 state structures with'
                   ' dense operands for EG/AF/AU/ER, mixed-type state names.'),
    'level_note': ('Trusted base: vmon/refsem.py ctl() (cross-checked against '
                   'the product-based refsem.star on every run), the neutral '
                   'form conversion, CPython. Class representatives stand for '
                   'isomorphic structures.'),
    'internal_monitors': ['c01.memo'],
    'deciding': ['c01.modelcheck'],
    'shards': {'quick': 16, 'thorough': 16},
    'hashseeds': {'quick': 2, 'thorough': 4},
    'min_evals': {'quick': {'c01.modelcheck': 20000, 'c01.memo': 20000},
                  'thorough': {'c01.modelcheck': 1000000}},
    'internal_sig': ['EG.trivial_scc_rejected', 'memo.hit'],
    'must_sig': ['reach:_checkEU:subgraph.add_node(v)',
                 'reach:_checkEG:T.update(scc)',
                 'EG.trivial_scc_rejected', 'memo.hit',
                 'root:A.U', 'root:E.R', 'root:A.R', 'root:imply',
                 'style:text', 'style:raw', 'style:ctls_obj', 'states:renamed',
                 'family:nary_prefix', 'history:mutation', 'stream:large_EG'],
    'rule': ('cases = (Kripke structure, CTL state formula, presentation '
             'style); enumerated: isomorphism-class representatives of all '
             'total structures with <=3 states over {p,q} x all formulas of '
             'operator depth <=1 (<=2 in sampled/thorough slices) over '
             '{p,q,true,false}; plus seeded random structures (<=6 states, 3 '
             'atoms, hostile shapes) x random formulas of depth <=4. '
             'non-trivial = the reference answer is neither the empty set '
             'nor all states; distinct = distinct (structure, formula tree) '
             '(enumerated cases are distinct by construction, random ones '
             'are deduplicated by digest and only counted outside the '
             'enumerated scope)'),
    'exhaustive': {'quick': False, 'thorough': True},
    'exhaustive_note': ('thorough: all 22,100 labelled total structures with '
                        '<=3 states over {p,q} x all 144 depth-<=1 formulas; '
                        'all 3,918 class representatives x all 8,964 '
                        'depth-<=2 formulas (binary operators with >=1 leaf '
                        'operand)'),
    'assumptions': ['refsem.ctl (direct fix-point semantics on bit masks) is '
                    'the oracle; it is cross-checked against refsem.star on '
                    'a slice of every run (see coverage.self_check)',
                    'class representatives stand for their isomorphism class '
                    '(renaming invariance is what C06 samples)'],
}


# --------------------------------------------------------------------------

_enum = [False]   # workload flag: current case comes from a duplicate-free
                  # enumeration (distinct by construction)


def judge(c):
    if c.logic != 'CTL' or c.F is not None or c.nk is None:
        return
    t = c.denoted()
    if t is None or not reflang.well_formed(t) or \
            not reflang.checkable(t, 'CTL'):
        LOG.counters['c01.out_of_domain'] += 1
        return
    LOG.hit('c01.modelcheck', c.site)
    nk = c.nk
    exp = refsem.ctl(nk, t)
    root = t[0] if t[0] not in 'AE' else '%s.%s' % (t[0], t[1][0])
    LOG.sig['root:' + root] += 1
    if c.nested:
        LOG.sig['nested'] += 1
    if c.raised is not None:
        LOG.violation('c01.modelcheck', PROP, c.case(),
                      'raised ' + mon.fmt_exc(c.raised),
                      sorted(i for i in range(nk.n) if exp >> i & 1),
                      note='exception instead of a set',
                      extra={'tb': mon.short_tb(c.raised)})
        return
    obs = c.result_mask
    if c.result_bad or obs != exp:
        LOG.violation('c01.modelcheck', PROP, c.case(),
                      c.result_bad or
                      sorted(i for i in range(nk.n) if obs >> i & 1),
                      sorted(i for i in range(nk.n) if exp >> i & 1),
                      note='missing=%s extra=%s (state indices)' % (
                          [i for i in range(nk.n) if exp & ~(obs or 0) >> i & 1],
                          [i for i in range(nk.n) if (obs or 0) & ~exp >> i & 1]))
    cls = 'empty' if exp == 0 else ('all' if exp == nk.full else 'proper')
    LOG.sig['answer:' + cls] += 1
    if cls == 'proper':
        if _enum[0] and not c.nested:
            LOG.counters['nontrivial_in_scope'] += 1
        elif nk.n > 3 or height(t) > 2 or c.nested:
            # outside the enumerated scope: deduplicate by digest
            LOG.mark_nontrivial((nk.key(), t), PROP)


def _attach_internal():
    """Diagnostic monitors on the labelling algorithm's own functions."""
    m = sys.modules['pyModelChecking.CTL.model_checking']
    orig_csf = m._checkStateFormula
    depth = [0]

    def _checkStateFormula(kripke, formula, L):
        top = depth[0] == 0
        depth[0] += 1
        try:
            try:
                if formula in L:
                    LOG.sig['memo.hit'] += 1
            except Exception:
                pass
            res = orig_csf(kripke, formula, L)
        finally:
            depth[0] -= 1
        if top:
            try:
                from ..neutral import nk_of
                nk = nk_of(kripke)
                memo = {}
                LOG.hit('c01.memo')
                for key, val in list(L.items())[:300]:
                    t = tree_of(key)
                    if not reflang.checkable(t, 'CTL'):
                        continue
                    exp = refsem.ctl(nk, t, memo)
                    obs = nk.mask_of(x for x in val if x in nk.idx)
                    LOG.counters['c01.memo_entries'] += 1
                    if obs != exp:
                        LOG.violation(
                            'c01.memo', PROP + '-diag',
                            {'K': nk.to_json(), 'formula': t},
                            sorted(nk.set_of(obs), key=repr),
                            sorted(nk.set_of(exp), key=repr),
                            note='memo entry differs from reference')
            except (refsem.RefError, Exception) as e:
                LOG.counters['c01.memo_unjudged'] += 1
        return res
    mon.rebind(orig_csf, _checkStateFormula)

    orig_eg = m._checkEG

    def _checkEG(kripke, formula, L):
        new = False
        try:
            new = formula not in L
        except Exception:
            pass
        res = orig_eg(kripke, formula, L)
        if new:
            try:
                from ..neutral import nk_of
                nk = nk_of(kripke)
                a = refsem.ctl(nk, tree_of(formula.subformula(0)
                                           .subformula(0)))
                # a phi-state without phi-self-loop that is its own SCC in
                # the phi-subgraph is a *trivial* SCC the algorithm must skip
                eg = refsem.ctl(nk, tree_of(formula))
                if a & ~eg:
                    LOG.sig['EG.trivial_scc_rejected'] += 1
                if eg:
                    LOG.sig['EG.nontrivial_scc'] += 1
            except Exception:
                pass
        return res
    mon.rebind(orig_eg, _checkEG)
    probes.watch([('_checkEU', m._checkEU), ('_checkEG', orig_eg),
                  ('_checkEX', m._checkEX), ('_checkNot', m._checkNot),
                  ('_checkOr', m._checkOr),
                  ('_checkAtomicProposition', m._checkAtomicProposition),
                  ('_checkStateFormula', orig_csf),
                  ('CTL.modelcheck', mcwrap.original('CTL'))])


def attach():
    mcwrap.attach()
    mon.attach_once('c01.internal',
                    lambda: mon.safe_internal(_attach_internal))
    if judge not in mcwrap.judges:
        mcwrap.judges.append(judge)


# --------------------------------------------------------------------------
# workload

def hostile_structures():
    """Hand-shaped structures for the branches the property text names."""
    out = []
    P, Q, N, PQ = {'p'}, {'q'}, set(), {'p', 'q'}
    # phi1-free cycle for AU; self-loop-only states; unreachable states
    out.append(NK(range(3), [0b010, 0b100, 0b100], [P, N, Q]))
    out.append(NK(range(3), [0b001, 0b010, 0b100], [P, Q, PQ]))
    out.append(NK(range(4), [0b0010, 0b0001, 0b1000, 0b1000], [P, P, Q, N]))
    # phi2 state isolated from the phi1-subgraph (EU add_node branch)
    out.append(NK(range(3), [0b001, 0b100, 0b010], [P, Q, N]))
    out.append(NK(range(4), [0b0011, 0b0100, 0b1000, 0b0001],
                  [P, Q, N, Q]))
    # two SCCs joined by one edge; EG with trivial SCC
    out.append(NK(range(5), [0b00010, 0b00101, 0b01000, 0b10000, 0b01000],
                  [P, P, PQ, Q, Q]))
    out.append(NK(range(4), [0b0010, 0b0100, 0b1000, 0b1000], [P, P, P, N]))
    out.append(NK(range(6), [0b000010, 0b000100, 0b001001, 0b010000,
                             0b100000, 0b001000],
                  [P, PQ, P, Q, N, Q]))
    return out


def hostile_formulas():
    p, q = ('ap', 'p'), ('ap', 'q')
    T, Fa = ('bool', True), ('bool', False)
    out = [
        ('A', ('U', p, q)), ('A', ('U', ('not', q), q)),
        ('E', ('U', p, q)), ('E', ('U', Fa, q)), ('E', ('U', T, q)),
        ('E', ('R', p, q)), ('A', ('R', p, q)), ('A', ('R', T, p)),
        ('E', ('G', p)), ('E', ('G', ('or', p, q))),
        ('and', ('E', ('G', p)), ('E', ('G', p))),      # memo hit
        ('or', ('E', ('U', p, q)), ('not', ('E', ('U', p, q)))),
        ('A', ('G', ('imply', p, ('A', ('F', q))))),
        ('A', ('G', ('or', ('not', p), ('A', ('F', q))))),
        ('imply', ('imply', p, q), ('imply', q, p)),
        ('and', p, q, ('E', ('X', p))), ('or', p, q, ('A', ('X', q))),
        ('E', ('X', ('E', ('X', ('E', ('X', p)))))),
        ('A', ('U', ('E', ('X', p)), ('A', ('G', q)))),
        ('E', ('R', ('A', ('F', p)), ('E', ('G', q)))),
        ('not', ('not', ('not', ('E', ('G', ('not', ('not', p))))))),
        ('A', ('F', ('A', ('G', p)))), ('E', ('G', ('E', ('F', p)))),
    ]
    return out


_parser = [None]


NAMINGS = [None,
           lambda i: 's%d' % i,
           lambda i: (i, 'x'),
           lambda i: 'state_%s' % 'abcdefghij'[i],
           lambda i: frozenset([i, 'f']),
           # mutually unorderable states in one structure
           lambda i: [0, 'a', (1, 2), frozenset(['z']), 4.5, 'b', (7,),
                      'nine', 9][i],
           lambda i: [('t', 0), 's', 2, ('u',), 'v', 5, 6.5, 't', 8][i]]


def rename_states(nk, k):
    f = NAMINGS[k % len(NAMINGS)]
    if f is None:
        return nk
    LOG.sig['states:renamed'] += 1
    return NK([f(i) for i in range(nk.n)], nk.succ, nk.labels)


def deep_formulas():
    """Depth >= 3, repeated subformulas, n-ary operators, until/release
    chains: shapes the depth-<=2 enumeration cannot contain."""
    p, q, r_ = ('ap', 'p'), ('ap', 'q'), ('ap', 'r')
    EUpq = ('E', ('U', p, q))
    out = [
        ('A', ('G', ('imply', p, ('A', ('F', ('and', q, ('E', ('X', p)))))))),
        ('E', ('U', ('A', ('U', p, q)), ('E', ('G', ('not', p))))),
        ('A', ('U', ('E', ('U', p, q)), ('A', ('R', q, p)))),
        ('E', ('R', ('E', ('R', p, q)), ('A', ('U', q, p)))),
        ('and', EUpq, ('not', q), ('or', p, EUpq)),
        ('or', ('A', ('G', p)), ('not', p), ('E', ('F', ('A', ('G', p))))),
        ('imply', ('imply', EUpq, q), ('imply', q, EUpq)),
        ('E', ('G', ('or', p, q, r_))), ('A', ('F', ('and', p, q, r_))),
        ('E', ('U', ('or', p, r_), ('and', q, ('E', ('G', ('or', p, q)))))),
        ('A', ('G', ('E', ('F', ('A', ('G', ('or', p, ('not', q)))))))),
        ('E', ('G', ('E', ('U', p, ('E', ('G', q)))))),
        ('A', ('R', ('E', ('X', p)), ('or', q, ('A', ('X', ('A', ('X', p))))))),
        ('not', ('E', ('U', ('not', ('E', ('U', p, q))), ('not', q)))),
        ('and', ('E', ('F', p)), ('E', ('F', p)), ('E', ('F', q))),
        ('E', ('X', ('A', ('U', ('E', ('X', p)), ('A', ('X', q)))))),
        ('A', ('U', ('or', p, q), ('and', ('E', ('G', p)), ('E', ('G', q))))),
        ('E', ('F', ('and', p, ('E', ('X', ('and', q, ('E', ('X', p)))))))),
    ]
    return out


def nary_prefix_family(r, n):
    """Pairs of different subformulas whose operand lists are prefixes of one
    another (op(a,b) next to op(a,b,c)), combined in one formula: anything
    that identifies a subformula by a lossy key (printed form, first
    operands, hash) confuses them."""
    p, q, r_ = ('ap', 'p'), ('ap', 'q'), ('ap', 'r')
    base = [p, q, r_, ('not', p), ('E', ('X', q)), ('A', ('F', r_)),
            ('not', r_), ('E', ('G', p))]
    out = []
    for _ in range(n):
        op = r.choice(['and', 'or'])
        a, b, c = r.sample(base, 3)
        small, big = (op, a, b), (op, a, b, c)
        if r.random() < 0.3:
            big = (op, a, b, c, r.choice(base))
        out.append(r.choice([
            ('and', ('not', small), big), ('or', big, ('not', small)),
            ('imply', small, big), ('imply', big, small),
            ('E', ('U', small, big)), ('A', ('U', big, small)),
            ('and', big, ('not', small)), ('E', ('R', big, small)),
            ('or', ('A', ('G', small)), ('E', ('F', ('not', big)))),
            ('and', ('E', ('X', small)), ('not', ('E', ('X', big))))]))
    return out


def mutation_history(ctx, r, k):
    """One structure object queried, modified in place through its public API
    (label sets returned by labels(s), add_edge, replace_labelling_function)
    and queried again: each answer must be exact for the structure as it is
    at that call."""
    from pyModelChecking import CTL
    nk = gen.random_structure(r, 5, atoms=('p', 'q'), nmin=2)
    K = mcwork.kripke_of(nk)
    forms = [('E', ('F', ('ap', 'p'))), ('A', ('G', ('ap', 'q'))),
             ('E', ('G', ('ap', 'p'))), ('ap', 'p'),
             ('A', ('U', ('ap', 'p'), ('ap', 'q'))),
             gen.random_ctl(r, 2, ('p', 'q')), gen.random_ctl(r, 3, ('p', 'q'))]
    LOG.sig['history:mutation'] += 1
    for step in range(8):
        for t in r.sample(forms, 3):
            try:
                CTL.modelcheck(K, mcwork.formula_arg('CTL', t, 'obj'))
            except Exception:
                pass
        sts = list(K.states())
        x = r.random()
        if x < 0.4:
            s_ = r.choice(sts)
            a = r.choice(['p', 'q'])
            if a in K.labels(s_):
                K.labels(s_).discard(a)
            else:
                K.labels(s_).add(a)
        elif x < 0.7:
            a, b = r.choice(sts), r.choice(sts)
            if b not in K.next(a):
                K.add_edge(a, b)
        elif x < 0.85:
            K.replace_labelling_function(
                {s_: set(a for a in ('p', 'q') if r.random() < 0.5)
                 for s_ in sts})
        else:
            a = r.choice(sts)
            if len(K.next(a)) > 1:
                K.next(a).discard(r.choice(sorted(K.next(a), key=repr)))


def run_case(nk, t, i, K=None):
    from pyModelChecking import CTL
    style = mcwork.STYLES[i % 4]
    LOG.sig['style:' + style] += 1
    if K is None:
        K = mcwork.kripke_of(nk, list(nk.states))
    f = mcwork.formula_arg('CTL', t, style)
    try:
        if style == 'text' and i % 128 != 2:
            # constructing a Lark parser per call costs ~18 ms: share one
            # (the documented `parser=` argument) except on every 128th case
            if _parser[0] is None:
                _parser[0] = CTL.Parser()
            CTL.modelcheck(K, f, parser=_parser[0])
        else:
            CTL.modelcheck(K, f)
    except Exception:
        pass          # recorded and judged by the monitor
    if i % 997 == 0:
        LOG.sample({'K': nk.to_json(), 'formula': show(t), 'style': style})


def self_check(nk, formulas):
    """Keep the oracle honest: refsem.ctl vs refsem.star."""
    S = refsem.Star(nk)
    memo = {}
    bad = 0
    for t in formulas:
        LOG.counters['self_check.cases'] += 1
        if refsem.ctl(nk, t, memo) != S.sat(t):
            bad += 1
    if bad:
        LOG.counters['self_check.disagreements'] += bad
        raise RuntimeError('reference self-check failed: refsem.ctl and '
                           'refsem.star disagree on %s' % (nk.to_json(),))


def run(ctx):
    attach()
    r = gen.rng(ctx.seed, PROP, 'main')
    F1 = gen.enum_ctl(1)
    F2 = gen.enum_ctl(2)[len(F1):]       # depth exactly 2
    f1set = set(F1)
    i = 0
    reps = {n: list(gen.representatives(n)) for n in (1, 2, 3)}
    hf = hostile_formulas()
    if ctx.quick:
        structs = reps[1] + reps[2] + r.sample(reps[3], 300)
        f2s = r.sample(F2, 1200)
        structs2 = reps[1] + r.sample(reps[2], 20) + r.sample(reps[3], 40)
        nrandom = 8000
    else:
        structs = []
        for n in (1, 2, 3):
            structs.extend(gen.all_structures(n))
        f2s = F2
        structs2 = reps[1] + reps[2] + reps[3]
        nrandom = 200000
    # sweep 1: structures x F1 (+ hostile formulas)
    for si, nk in enumerate(structs):
        if not ctx.mine(si):
            continue
        K = mcwork.kripke_of(nk)
        _enum[0] = True
        for t in F1:
            run_case(nk, t, i, K)
            i += 1
        _enum[0] = False
        for t in hf:
            run_case(nk, t, i, K)
            i += 1
        if si % 64 == ctx.shard:
            self_check(nk, F1)
    # sweep 2: structures x F2
    for si, nk in enumerate(structs2):
        if not ctx.mine(si):
            continue
        K = mcwork.kripke_of(nk)
        _enum[0] = True
        for t in f2s:
            run_case(nk, t, i, K)
            i += 1
        _enum[0] = False
    # hostile shapes x (F1 + hostile formulas)
    deep = deep_formulas()
    npf = nary_prefix_family(gen.rng(ctx.seed, PROP, 'npf'),
                             300 if ctx.quick else 6000)
    LOG.sig['family:nary_prefix'] += len(npf)
    for k in range(len(npf) * (4 if ctx.quick else 8)):
        nk = gen.random_structure(r, 6, atoms=('p', 'q', 'r'), nmin=3)
        if not ctx.mine(k):
            continue
        run_case(rename_states(nk, k), npf[k % len(npf)], i)
        i += 1
    # larger structures (6-9 states) where most states satisfy the operand, so
    # that the phi-subgraphs of EG/EU have several components, tails and
    # cross edges; string/tuple state names vary the visiting order
    p_, q_ = ('ap', 'p'), ('ap', 'q')
    egf = [('E', ('G', p_)), ('A', ('F', ('not', p_))),
           ('A', ('U', q_, ('not', p_))), ('E', ('R', ('not', p_), p_)),
           ('E', ('G', ('or', p_, q_))), ('A', ('F', ('and', ('not', p_), q_))),
           ('E', ('U', p_, ('E', ('G', p_)))), ('A', ('G', ('E', ('G', p_)))),
           ('E', ('G', ('E', ('X', p_)))), ('A', ('R', q_, ('A', ('F', q_)))),
           ('and', ('E', ('G', p_)), ('not', ('E', ('G', ('and', p_, q_)))))]
    for k in range(7000 if ctx.quick else 250000):
        if not ctx.mine(k):
            continue
        rr = gen.rng(ctx.seed, PROP, ('eg', k))
        nk0 = gen.random_structure(rr, 9, atoms=('p', 'q'), nmin=6,
                                   maxdeg=2, shape=rr.choice(
                                       ['plain', 'chain', 'plain']))
        labels = [frozenset(a for a in ('p', 'q')
                            if rr.random() < (0.8 if a == 'p' else 0.3))
                  for _ in range(nk0.n)]
        nk = NK(range(nk0.n), nk0.succ, labels)
        LOG.sig['stream:large_EG'] += 1
        run_case(rename_states(nk, k), rr.choice(egf), 4 * i)
        i += 1
    for k in range(400 if ctx.quick else 8000):
        rr = gen.rng(ctx.seed, PROP, ('mut', k))
        if ctx.mine(k):
            mutation_history(ctx, rr, k)
    for si, nk in enumerate(hostile_structures()):
        if not ctx.mine(si):
            continue
        for t in F1 + hf + deep:
            run_case(rename_states(nk, si + i), t, i)
            i += 1
    # seeded random
    for k in range(nrandom):
        nk = gen.random_structure(r, 6 if k % 4 else 8)
        t = gen.random_ctl(r, r.randint(1, 4)) if k % 5 else r.choice(deep)
        if not ctx.mine(k):
            continue
        run_case(rename_states(nk, k), t, i)
        i += 1
        if k % 200 == ctx.shard:
            self_check(nk, [t])
    LOG.nontrivial_extra += LOG.counters.pop('nontrivial_in_scope', 0)
    ctx.extra['reach'] = probes.result()


def finalize(reports, ctx):
    merged = probes.merge([r['extra'].get('reach', {}) for r in reports])
    inc = []
    cov = {'reach': {k: {'lines': v['lines'], 'hit': v['hit'],
                         'never_reached': v['never_reached']}
                     for k, v in merged.items()}}
    sc = sum(r['counters'].get('self_check.cases', 0) for r in reports)
    cov['self_check'] = {'ctl_vs_star_cases': sc, 'disagreements': 0}
    ev, waived = probes.reach_sigs(merged, CONFIG['must_sig'])
    cov['reach_requirements_waived'] = waived
    return {'coverage': cov, 'sig_add': ev, 'inconclusive': inc}


def replay(ctx, rep):
    attach()
    mcwork.replay_mc(rep['case'])
