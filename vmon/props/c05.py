"""C05 -- rewriting to the restricted syntax and LNot preserve meaning.

Deciding monitors (post-conditions rebound over the real methods, so calls
made from inside the model checkers are judged too):
 c05.restricted  on every outermost get_equivalent_restricted_formula call:
                 (a) the output uses only the restricted alphabet of its logic
                 (b) the output is semantically equivalent to the receiver
 c05.lnot        on LNot: result equivalent to 'not f', root not 'not not'
"""

import sys

from .. import mon, equiv, reflang, gen, probes, mcwork, refsem
from ..mon import LOG
from ..neutral import tree_of, show, build, lang, height, NeutralError

PROP = 'C05'

CONFIG = {
    'technique': ('runtime monitor: post-conditions on every '
                  'get_equivalent_restricted_formula method and on LNot; '
                  'alphabet checked syntactically, equivalence by reference '
                  'semantics on a structure panel and by an independent '
                  'evaluator on all bounded lasso words'),
    'level_text': ('Every outermost rewrite call observed (driven on the '
                   'depth-<=2 enumerations of CTL, LTL and a CTL* family, '
                   'random deeper formulas, and the calls the three model '
                   'checkers make) has its output checked for the restricted '
                   'alphabet and for semantic equivalence with its input on a '
                   'panel of small structures / all lasso words up to a '
                   'length bound; LNot likewise.'
                   ' Also: every chain of three temporal/negation operators,'
                   ' negation chains for LNot.'),
    'level_note': ('Trusted base: vmon/equiv.py over refsem/pathsem; '
                   'equivalence is decided on a finite panel (structures '
                   'with <=3 states over {p,q}; lasso words with |u|+|v|<=4), '
                   'so "equivalent" means "indistinguishable on the panel". '
                   'Out of domain: LTL state formulas A g (the restricted LTL '
                   'alphabet has no path quantifier) and bare CTL path '
                   'formulas.'),
    'deciding': ['c05.restricted', 'c05.lnot'],
    'internal_monitors': [],
    'shards': {'quick': 16, 'thorough': 16},
    'hashseeds': {'quick': 2, 'thorough': 2},
    'min_evals': {'quick': {'c05.restricted': 8000, 'c05.lnot': 10000},
                  'thorough': {'c05.restricted': 60000}},
    'must_sig': ['logic:CTL', 'logic:LTL', 'logic:CTLS', 'root:A.R', 'root:E.R',
                 'root:A.U', 'root:R', 'root:G', 'root:imply', 'root:and',
                 'lnot:stripped', 'lnot:wrapped', 'kind:state', 'kind:path',
                 'family:temporal_chains', 'shared_subobject',
                 'kind:quantified_path',
                 'site:pyModelChecking.CTL.model_checking:*',
                 'site:pyModelChecking.LTL.model_checking:*'],
    'rule': ('cases = (logic, formula tree) given to '
             'get_equivalent_restricted_formula / LNot; enumerated: all CTL '
             'state formulas and all LTL path formulas of depth <=1, a '
             'seeded slice (quick) / all (thorough) of depth 2, a '
             'systematic CTL* family; random formulas to depth 5 (alphabet '
             'check only above 3 atoms). non-trivial = the input contains an '
             'operator outside the restricted alphabet (so the rewrite has '
             'to change it); distinct by digest of (logic, tree)'),
    'exhaustive': {'quick': False, 'thorough': True},
    'exhaustive_note': ('thorough: all 8,964 depth-<=2 CTL state formulas '
                        'and all 4,324 depth-<=2 LTL path formulas'),
    'assumptions': ['equivalence on the panel stands for equivalence on all '
                    'models (small-scope hypothesis)'],
}

_depth = [0]
_size = [24]


def restricted_ok(t, logic):
    """Alphabet check (a). Returns None or the offending subtree."""
    op = t[0]
    if op in ('ap', 'bool'):
        return None
    if logic == 'CTL':
        if op in ('not', 'or'):
            for c in t[1:]:
                b = restricted_ok(c, logic)
                if b:
                    return b
            return None
        if op == 'E' and t[1][0] in ('X', 'U', 'G'):
            for c in t[1][1:]:
                b = restricted_ok(c, logic)
                if b:
                    return b
            return None
        return t
    if op in ('not', 'or', 'X', 'U', 'E'):
        for c in t[1:]:
            b = restricted_ok(c, logic)
            if b:
                return b
        return None
    return t


def _logic_of(obj):
    return type(obj).__module__.split('.')[1]


def _needs_rewrite(t, logic):
    return restricted_ok(t, logic) is not None


def judge_restricted(self, out, err, site):
    try:
        tin = tree_of(self)
    except NeutralError:
        return
    logic = _logic_of(self)
    kinds = reflang.kinds(tin)
    # domain
    if logic == 'LTL' and 'LTL.path' not in kinds:
        LOG.counters['c05.out_of_domain.LTL_state'] += 1
        return
    if logic == 'CTL' and 'CTL.state' not in kinds:
        LOG.counters['c05.out_of_domain.CTL_path'] += 1
        return
    LOG.hit('c05.restricted', site)
    LOG.sig['logic:' + logic] += 1
    LOG.sig['site:' + site] += 1
    root = tin[0] if tin[0] not in 'AE' or logic != 'CTL' else \
        '%s.%s' % (tin[0], tin[1][0])
    LOG.sig['root:' + root] += 1
    case = {'logic': logic, 'formula': tin, 'shown': show(tin), 'site': site}
    if err is not None:
        LOG.violation('c05.restricted', PROP, case,
                      'raised ' + mon.fmt_exc(err), 'a restricted formula',
                      note='exception', extra={'tb': mon.short_tb(err)})
        return
    try:
        tout = tree_of(out)
    except NeutralError as e:
        LOG.violation('c05.restricted', PROP, case, repr(out)[:200],
                      'a formula', note='result is not a formula')
        return
    bad = restricted_ok(tout, logic)
    if bad is not None:
        LOG.violation('c05.restricted', PROP, case, show(tout),
                      'only not/or/X/U/E(+EG in CTL)/atoms',
                      note='(a) output leaves the restricted alphabet at '
                           + show(bad))
    out_logic = _logic_of(out) if not isinstance(out, (bool, str)) else None
    if out_logic != logic:
        LOG.violation('c05.restricted', PROP, case,
                      'result lives in %s' % out_logic, logic,
                      note='output formula belongs to another logic module')
    verdict, wit = equiv.equivalent(tin, tout, size=_size[0])
    if refsem.is_state_tree(tin):
        LOG.sig['kind:state'] += 1
    elif 'A' in repr(tin) or "'E'" in repr(tin):
        LOG.sig['kind:quantified_path'] += 1
    else:
        LOG.sig['kind:path'] += 1
    if verdict is None:
        LOG.skipped['c05.equiv_undecided:' + str(wit)] += 1
    elif verdict is False:
        LOG.violation('c05.restricted', PROP, case, show(tout),
                      'a formula equivalent to the input',
                      note='(b) not equivalent', extra={'distinguisher': wit})
    if _needs_rewrite(tin, logic):
        LOG.mark_nontrivial(('r', logic, tin))


def judge_lnot(arg, out, err, site):
    try:
        tin = tree_of(arg)
    except Exception:
        return
    LOG.hit('c05.lnot', site)
    case = {'formula': tin, 'shown': show(tin), 'site': site,
            'logic': _logic_of(arg) if not isinstance(arg, (bool, str))
            else None}
    if err is not None:
        LOG.violation('c05.lnot', PROP, case, 'raised ' + mon.fmt_exc(err),
                      'a formula', note='exception')
        return
    try:
        tout = tree_of(out)
    except NeutralError:
        LOG.violation('c05.lnot', PROP, case, repr(out)[:200], 'a formula',
                      note='result is not a formula')
        return
    if tout[0] == 'not' and tout[1][0] == 'not':
        LOG.violation('c05.lnot', PROP, case, show(tout),
                      'no two leading negations', note='begins with not not')
    if tin[0] == 'not':
        LOG.sig['lnot:stripped'] += 1
    else:
        LOG.sig['lnot:wrapped'] += 1
    verdict, wit = equiv.equivalent(('not', tin), tout, size=_size[0])
    if verdict is None:
        LOG.skipped['c05.equiv_undecided:' + str(wit)] += 1
    elif verdict is False:
        LOG.violation('c05.lnot', PROP, case, show(tout),
                      'a formula equivalent to not f',
                      note='LNot result not equivalent to the negation',
                      extra={'distinguisher': wit})
    LOG.mark_nontrivial(('l', tin))


def _wrap_method(orig):
    def get_equivalent_restricted_formula(self):
        outer = _depth[0] == 0
        site = mon.caller_site(2) if outer else None
        _depth[0] += 1
        err = None
        out = None
        try:
            out = orig(self)
        except BaseException as e:
            err = e
        finally:
            _depth[0] -= 1
        if outer:
            judge_restricted(self, out, err, site)
        else:
            LOG.counters['c05.inner_calls'] += 1
        if err is not None:
            raise err
        return out
    return get_equivalent_restricted_formula


_lnot_n = [0]


def _wrap_lnot(orig):
    def LNot(formula):
        site = mon.caller_site(2)
        err = None
        out = None
        try:
            out = orig(formula)
        except BaseException as e:
            err = e
        # LNot is called very often by the checkers; judge every call made by
        # the workload and every 5th internal one (all are counted)
        _lnot_n[0] += 1
        if not site.startswith('pyModelChecking') or _lnot_n[0] % 5 == 0:
            if _depth[0] == 0 or _lnot_n[0] % 5 == 0:
                judge_lnot(formula, out, err, site)
        else:
            LOG.counters['c05.lnot_unjudged_internal'] += 1
        if err is not None:
            raise err
        return out
    # recursion inside LNot goes through the module global: rebind covers it
    return LNot


def attach():
    def do():
        import pyModelChecking.CTL
        import pyModelChecking.LTL
        import pyModelChecking.CTLS
        import pyModelChecking.language as base
        n = 0
        watch = []
        for modname in ('pyModelChecking.CTLS.language',
                        'pyModelChecking.CTL.language',
                        'pyModelChecking.LTL.language'):
            m = sys.modules[modname]
            for cname, cls in list(m.__dict__.items()):
                if isinstance(cls, type) and cls.__module__ == modname and \
                        'get_equivalent_restricted_formula' in cls.__dict__:
                    orig = cls.__dict__['get_equivalent_restricted_formula']
                    watch.append(('%s.%s' % (modname.split('.')[1], cname),
                                  orig))
                    setattr(cls, 'get_equivalent_restricted_formula',
                            _wrap_method(orig))
                    n += 1
        orig = base.LNot
        mon.rebind(orig, _wrap_lnot(orig))
        watch.append(('LNot', orig))
        probes.watch(watch)
        LOG.notes.append('wrapped %d get_equivalent_restricted_formula '
                         'methods' % n)
        return n
    return mon.attach_once('c05', do)


def drive(logic, t, i):
    L = lang(logic)
    try:
        f = build(L, t, raw_leaves=(i % 2 == 1))
    except Exception:
        LOG.counters['c05.unbuildable'] += 1
        return
    try:
        before = tree_of(f)
        r1 = f.get_equivalent_restricted_formula()
        r2 = f.get_equivalent_restricted_formula()
        LOG.hit('c05.repeatable')
        if tree_of(f) != before:
            LOG.violation('c05.restricted', PROP,
                          {'logic': logic, 'formula': t, 'shown': show(t)},
                          show(tree_of(f)), show(before),
                          note='get_equivalent_restricted_formula modified '
                               'its receiver')
        elif tree_of(r1) != tree_of(r2):
            LOG.violation('c05.restricted', PROP,
                          {'logic': logic, 'formula': t, 'shown': show(t)},
                          show(tree_of(r2)), show(tree_of(r1)),
                          note='a second rewrite of the same object gives '
                               'another result')
    except Exception:
        pass
    if i % 4 == 0 and t[0] not in ('ap', 'bool'):
        # the SAME Python object used twice as an operand
        try:
            shared = [('and', 2), ('or', 3), ('imply', 2)]
            if logic in ('LTL', 'CTLS'):
                shared += [('U', 2), ('R', 2)]
            op, k = shared[(i // 4) % len(shared)]
            from ..neutral import CLS
            g = getattr(L, CLS[op])(*([f] * k)) if op != 'imply' else \
                L.Imply(f, L.Not(f))
            LOG.sig['shared_subobject'] += 1
            g.get_equivalent_restricted_formula()
            L.LNot(g)
        except Exception:
            pass
    try:
        L.LNot(f)
        if i % 3 == 0:
            # chains of leading negations: LNot must strip them in pairs
            g = f
            for k in range(1 + i % 5):
                g = L.Not(g)
                L.LNot(g)
    except Exception:
        pass
    if i % 811 == 0:
        LOG.sample({'logic': logic, 'formula': show(t)})


def run(ctx):
    attach()
    _size[0] = 24 if ctx.quick else 120
    r = gen.rng(ctx.seed, PROP, 'main')
    C1 = gen.enum_ctl(1)
    C2 = gen.enum_ctl(2)[len(C1):]
    P1 = gen.enum_ltl_path(1)
    P2 = gen.enum_ltl_path(2)[len(P1):]
    fam = gen.enum_ctls_small()
    if ctx.quick:
        C2 = r.sample(C2, 3000)
        P2 = r.sample(P2, 2400)
        nrand = 1500
    else:
        nrand = 30000
    p_, q_ = ('ap', 'p'), ('ap', 'q')
    inner = [('A', ('X', p_)), ('E', ('G', q_)), ('A', ('U', p_, q_)),
             ('E', ('R', p_, ('F', q_))), ('A', ('F', ('G', p_))),
             ('E', ('and', ('F', p_), ('G', q_)))]
    qpaths = []
    for a in inner:
        for op in 'XFG':
            qpaths.append((op, a))
            qpaths.append((op, ('not', a)))
        for b in (p_, q_, ('X', p_), inner[0]):
            for op in ('U', 'R', 'and', 'or', 'imply'):
                qpaths.append((op, a, b))
                qpaths.append((op, b, a))
    # every chain of three temporal/negation operators over atoms
    chains = []
    un = ('X', 'F', 'G', 'not')

    def ops(a, b):
        out = [(o, a) for o in un]
        out += [('U', a, b), ('U', b, a), ('R', a, b), ('R', b, a)]
        return out
    lvl1 = ops(p_, q_)
    for g1 in lvl1:
        for g2 in ops(g1, q_):
            if g2[0] == 'not' and g1[0] == 'not':
                continue
            for g3 in ops(g2, p_):
                chains.append(g3)
    if ctx.quick:
        chains = gen.rng(ctx.seed, PROP, 'chains').sample(
            chains, min(700, len(chains)))
    LOG.sig['family:temporal_chains'] += len(chains)
    work = [('LTL', t) for t in chains] + \
        [('CTLS', t) for t in chains[::3]] + \
        [('CTLS', ('A', t)) for t in chains[1::7]] + \
        [('CTLS', t) for t in qpaths] + [('CTL', t) for t in C1 + C2] + [('LTL', t) for t in P1 + P2] + \
        [('CTLS', t) for t in P1 + P2[:600] + fam + C1]
    for i, (logic, t) in enumerate(work):
        if ctx.mine(i):
            drive(logic, t, i)
    for k in range(nrand):
        which = k % 3
        if which == 0:
            logic, t = 'CTL', gen.random_ctl(r, r.randint(2, 5),
                                             atoms=('p', 'q'))
        elif which == 1:
            logic, t = 'LTL', gen.random_ltl_path(r, r.randint(2, 4),
                                                  atoms=('p', 'q'),
                                                  max_temporal=5)
        else:
            logic, t = 'CTLS', gen.random_ctls_state(
                r, r.randint(2, 4), atoms=('p', 'q'), qdepth=2)
        if ctx.mine(k):
            drive(logic, t, k)
    # calls made by the model checkers themselves
    from pyModelChecking import CTL, LTL, CTLS
    for k in range(300 if ctx.quick else 5000):
        nk = gen.random_structure(r, 4, atoms=('p', 'q'))
        tc = gen.random_ctl(r, 3, atoms=('p', 'q'))
        tl = gen.random_ltl_path(r, 2, atoms=('p', 'q'), max_temporal=3)
        ts = gen.random_ctls_state(r, 3, atoms=('p', 'q'))
        if not ctx.mine(k):
            continue
        K = mcwork.kripke_of(nk)
        try:
            CTL.modelcheck(K, build(CTL, tc))
            LTL.modelcheck(K, build(LTL, ('A', tl)))
            CTLS.modelcheck(K, build(CTLS, ts))
        except Exception:
            LOG.counters['mc_raised'] += 1
    ctx.extra['reach'] = probes.result()


def finalize(reports, ctx):
    merged = probes.merge([r['extra'].get('reach', {}) for r in reports])
    return {'coverage': {'reach': {k: {'lines': v['lines'], 'hit': v['hit'],
                                       'never_reached': v['never_reached']}
                                   for k, v in merged.items()}}}


def replay(ctx, rep):
    attach()
    from ..mcwork import to_tuple
    c = rep['case']
    drive(c.get('logic') or 'CTLS', to_tuple(c['formula']), 0)
