"""Neutral forms: what the oracles see.

Formulas become nested tuples, Kripke structures become integer-indexed
bit-mask structures, digraphs become adjacency bit rows.  The conversion walks
the real objects by class ``__name__`` and child lists -- never through
``str()``, ``==`` or ``hash`` of formula objects, which are themselves under
test (C09, C11).
"""

import sys

OPS = {'Not': 'not', 'Or': 'or', 'And': 'and', 'Imply': 'imply',
       'A': 'A', 'E': 'E', 'X': 'X', 'F': 'F', 'G': 'G', 'U': 'U', 'R': 'R'}
CLS = {v: k for k, v in OPS.items()}
ARITY = {'not': 1, 'imply': 2, 'A': 1, 'E': 1, 'X': 1, 'F': 1, 'G': 1,
         'U': 2, 'R': 2}          # 'or' / 'and' are n-ary (n >= 2)
TEMPORAL = ('X', 'F', 'G', 'U', 'R')
QUANT = ('A', 'E')
BOOLEAN = ('not', 'or', 'and', 'imply')


class NeutralError(Exception):
    pass


def tree_of(f):
    """Operator tree of a formula object (or raw str/bool leaf)."""
    if isinstance(f, bool):
        return ('bool', f)
    if isinstance(f, str):
        return ('ap', f)
    out = []
    # iterative post-order: formulas may be deep (C19 nests to depth ~100+)
    stack = [(f, 0, [])]
    result = None
    while stack:
        node, i, acc = stack[-1]
        if isinstance(node, bool):
            res = ('bool', node)
        elif isinstance(node, str):
            res = ('ap', node)
        else:
            cn = type(node).__name__
            if cn == 'Bool':
                res = ('bool', bool(node._value))
            elif cn == 'AtomicProposition':
                res = ('ap', node.name)
            elif cn in OPS:
                kids = node._subformula
                if i < len(kids):
                    stack[-1] = (node, i + 1, acc)
                    stack.append((kids[i], 0, []))
                    continue
                res = (OPS[cn],) + tuple(acc)
            else:
                raise NeutralError('not a formula node: %r (%s)' %
                                   (node, cn))
        stack.pop()
        if stack:
            stack[-1][2].append(res)
        else:
            result = res
    return result


def module_set(f):
    """Set of module names of all nodes of a formula object."""
    mods = set()
    stack = [f]
    while stack:
        node = stack.pop()
        mods.add(type(node).__module__)
        kids = getattr(node, '_subformula', None)
        if kids and type(node).__name__ in OPS:
            stack.extend(kids)
    return mods


def node_ids(f):
    """ids of all node objects of a formula (for aliasing checks)."""
    ids = []
    stack = [f]
    while stack:
        node = stack.pop()
        ids.append(id(node))
        if type(node).__name__ in OPS:
            stack.extend(node._subformula)
    return ids


def lang(name):
    import pyModelChecking  # noqa
    __import__('pyModelChecking.' + name)
    return sys.modules['pyModelChecking.' + name]


def build(Lang, t, raw_leaves=False):
    """Build a formula object of language module ``Lang`` from a tree.

    raw_leaves=True passes str/bool leaves unwrapped to the constructors
    (the documented shorthand); a bare leaf at the root is always wrapped.
    Raises whatever the constructors raise.
    """
    def rec(t, top):
        op = t[0]
        if op == 'ap':
            if raw_leaves and not top:
                return t[1]
            return Lang.AtomicProposition(t[1])
        if op == 'bool':
            if raw_leaves and not top:
                return t[1]
            return Lang.Bool(t[1])
        kids = [rec(c, False) for c in t[1:]]
        return getattr(Lang, CLS[op])(*kids)
    return rec(t, True)


def show(t):
    """Compact readable rendering of a tree (for evidence samples only)."""
    op = t[0]
    if op == 'ap':
        return t[1]
    if op == 'bool':
        return 'true' if t[1] else 'false'
    if op == 'not':
        return 'not ' + show(t[1])
    if op in ('or', 'and'):
        return '(' + (' %s ' % op).join(show(c) for c in t[1:]) + ')'
    if op == 'imply':
        return '(%s --> %s)' % (show(t[1]), show(t[2]))
    if op in ('U', 'R'):
        return '(%s %s %s)' % (show(t[1]), op, show(t[2]))
    return '%s(%s)' % (op, show(t[1]))


def height(t):
    if t[0] in ('ap', 'bool'):
        return 0
    return 1 + max(height(c) for c in t[1:])


def size(t):
    if t[0] in ('ap', 'bool'):
        return 1
    return 1 + sum(size(c) for c in t[1:])


def atoms_of(t, acc=None):
    if acc is None:
        acc = set()
    if t[0] == 'ap':
        acc.add(t[1])
    elif t[0] != 'bool':
        for c in t[1:]:
            atoms_of(c, acc)
    return acc


def rename_atoms(t, m):
    if t[0] == 'ap':
        return ('ap', m.get(t[1], t[1]))
    if t[0] == 'bool':
        return t
    return (t[0],) + tuple(rename_atoms(c, m) for c in t[1:])


def count_ops(t, ops):
    if t[0] in ('ap', 'bool'):
        return 0
    return (1 if t[0] in ops else 0) + sum(count_ops(c, ops) for c in t[1:])


# --------------------------------------------------------------------------
# structures

class NK(object):
    """Neutral Kripke structure: states 0..n-1, succ bit rows, label sets."""
    __slots__ = ('n', 'states', 'idx', 'succ', 'labels', 's0', 'full')

    def __init__(self, states, succ, labels, s0=()):
        self.states = list(states)
        self.n = len(self.states)
        self.idx = {s: i for i, s in enumerate(self.states)}
        self.succ = list(succ)
        self.labels = [frozenset(l) for l in labels]
        self.s0 = frozenset(s0)
        self.full = (1 << self.n) - 1

    def label_mask(self, name):
        m = 0
        for i, l in enumerate(self.labels):
            if name in l:
                m |= 1 << i
        return m

    def mask_of(self, states):
        m = 0
        for s in states:
            m |= 1 << self.idx[s]
        return m

    def set_of(self, mask):
        return set(self.states[i] for i in range(self.n) if mask >> i & 1)

    def edges(self):
        return [(i, j) for i in range(self.n) for j in range(self.n)
                if self.succ[i] >> j & 1]

    def is_total(self):
        return all(self.succ)

    def key(self):
        """Hashable identity of the structure as presented (index order)."""
        return (self.n, tuple(self.succ),
                tuple(tuple(sorted(map(repr, l))) for l in self.labels))

    def to_json(self):
        return {'states': [repr(s) for s in self.states],
                'R': self.edges(),
                'L': {str(i): sorted(map(str, l))
                      for i, l in enumerate(self.labels)},
                'L_repr': {str(i): sorted(map(repr, l))
                           for i, l in enumerate(self.labels)
                           if any(not isinstance(a, str) for a in l)}}


def nk_of(K):
    """Neutral form of a real Kripke object, read from its internals so that
    nothing is lost (label sets of non-states, S0)."""
    nxt = K._next
    states = list(nxt.keys())
    idx = {s: i for i, s in enumerate(states)}
    succ = []
    for s in states:
        m = 0
        for d in nxt[s]:
            if d in idx:
                m |= 1 << idx[d]
            else:
                raise NeutralError('dangling edge %r -> %r' % (s, d))
        succ.append(m)
    labels = [frozenset(K._labels.get(s, ())) for s in states]
    return NK(states, succ, labels, getattr(K, 'S0', ()))


def make_kripke(n, succ, labels, names=None, Kripke=None):
    """Build a real Kripke from index-level data. names: index -> state."""
    if Kripke is None:
        from pyModelChecking.kripke import Kripke
    if names is None:
        names = list(range(n))
    R = [(names[i], names[j]) for i in range(n) for j in range(n)
         if succ[i] >> j & 1]
    L = {names[i]: set(labels[i]) for i in range(n)}
    return Kripke(S=[names[i] for i in range(n)], R=R, L=L)


def deep_snapshot(K):
    """Everything C07 promises stays unchanged, including identity of each
    label-set object and of the successor sets."""
    return {
        'states': list(K._next.keys()),
        'next': {s: frozenset(d) for s, d in K._next.items()},
        'next_ids': {s: id(d) for s, d in K._next.items()},
        'labels': {s: frozenset(l) for s, l in K._labels.items()},
        'label_ids': {s: id(l) for s, l in K._labels.items()},
        'labels_dict_id': id(K._labels),
        'S0': frozenset(K.S0),
        'attrs': sorted(K.__dict__.keys()),
    }


PURITY_KEYS = ('states', 'next', 'labels', 'S0')


def snapshot_diff(a, b):
    """Keys of the *observable* structure that differ (states, transitions,
    label sets, initial states).  Object identities and private attributes
    are recorded for diagnosis but are not part of the purity verdict: an
    implementation may cache privately or replace a set by an equal one."""
    return [k for k in PURITY_KEYS if a.get(k) != b.get(k)]


def same_structure(a, b):
    return a is not None and b is not None and not snapshot_diff(a, b)


# --------------------------------------------------------------------------
# digraphs

def graph_rows(G):
    """(nodes, rows) with rows[i] bit mask of successors. Reads ``_next``."""
    nodes = list(G._next.keys())
    idx = {v: i for i, v in enumerate(nodes)}
    rows = []
    for v in nodes:
        m = 0
        for d in G._next[v]:
            if d not in idx:
                raise NeutralError('dangling edge')
            m |= 1 << idx[d]
        rows.append(m)
    return nodes, rows
