"""C04 -- the three checkers agree with each other and obey the semantic laws.

Relation monitors over groups of calls on the real API; no reference
implementation is involved.
 c04.R1 same formula through several entry points (own-class objects, objects
        cast with cast_to, text) gives one set
 c04.R2 text vs object
 c04.R3 Boolean laws: mc(not f) = S \\ mc(f); and/or/implies
 c04.R4 A g = not E not g
 c04.R5 fix-point expansion laws (EU, AU, EG, AG, EF, AF, ER, AR)
 c04.L  LTL laws that are valid for A-formulas: mc(A(g and h)) =
        mc(A g) & mc(A h);  mc(A g) & mc(A not g) = {}
"""

from .. import mon, mcwrap, gen, mcwork, reflang
from ..mon import LOG
from ..neutral import show, NK, build, lang, tree_of

PROP = 'C04'

CONFIG = {
    'technique': ('runtime relation monitors (metamorphic): groups of calls '
                  'on the real CTL/LTL/CTLS modelcheck related by entry-point '
                  'agreement, Boolean laws, A/E duality and fix-point '
                  'expansion laws; no reference implementation'),
    'level_text': ('For structures of the small scope and seeded random '
                   'ones, and formulas/pairs from the depth-<=1 enumeration '
                   'and random deeper ones, every relation instance executed '
                   'must hold between the sets the real checkers return.'
                   ' Also: text with operator synonyms and irregular blanks,'
                   ' n-ary operators as text/object/nested binary, the same path'
                   ' formula under A and E, depth-2 LTL formulas through raw-leaf'
                   ' object / wrapped object / text / CTL* entry.'
                   ' Also (round 6): n-ary and/or over 3-4 distinct operands (third atom r) as object, text and nested binary forms through every entry point.'),
    'level_note': ('Trusted base: only the relations themselves (standard '
                   'semantic identities) and set comparison. Raw foreign-'
                   'class objects (e.g. a CTL object given to LTL.modelcheck) '
                   'may be rejected with TypeError; where a set is returned '
                   'it must agree.'),
    'deciding': ['c04.R1', 'c04.R2', 'c04.R3', 'c04.R4', 'c04.R5', 'c04.L'],
    'shards': {'quick': 16, 'thorough': 16},
    'hashseeds': {'quick': 4, 'thorough': 8},
    'min_evals': {'quick': {'c04.R1': 2000, 'c04.R2': 1000, 'c04.R3': 3000,
                            'c04.R4': 2000, 'c04.R5': 3000, 'c04.L': 500},
                  'thorough': {'c04.R1': 40000}},
    'must_sig': ['R1:CTL=LTL', 'R1:CTL=CTLS', 'R1:LTL=CTLS', 'R1:PL',
                 'R1:cast', 'R5:EU', 'R5:AU', 'R5:ER', 'R5:AR', 'R5:EG',
                 'R5:AG', 'R5:EF', 'R5:AF', 'R4:ctls', 'R2:synonyms_spacing', 'R2:nary_text',
                 'family:A_and_E_same_path', 'family:ltl_depth2_routes',
                 'R1:object_reuse', 'R2:nary4', 'family:unary_over_binary_raw',
                 'family:nary_distinct_operands'],
    'rule': ('cases = relation instances (relation, structure, formula or '
             'pair of formulas); structures: class representatives with <=2 '
             'states (quick: plus a sample of 3-state ones; thorough: all) '
             'and seeded random ones (<=5 states); formulas: depth-<=1 CTL '
             'state formulas / LTL path formulas and random deeper ones. '
             'non-trivial = at least one of the compared sets is neither '
             'empty nor all states; distinct by digest of (relation, '
             'structure, formulas)'),
    'exhaustive': {'quick': False, 'thorough': False},
    'assumptions': ['the relations are standard valid identities of CTL/LTL/'
                    'CTL* over total structures'],
}

_parsers = {}
AE_FAMILY = []
P2 = []


def mc(logic, K, f):
    L = lang(logic)
    if isinstance(f, str):
        if logic not in _parsers:
            _parsers[logic] = L.Parser()
        return L.modelcheck(K, f, parser=_parsers[logic])
    return L.modelcheck(K, f)


def relate(name, sub, nk, K, trees, results, expect_fn, note):
    """results: list of sets (or exceptions). expect_fn(results)->bool"""
    LOG.hit('c04.' + name)
    LOG.sig['%s:%s' % (name, sub)] += 1
    S = set(K.states())
    ok = False
    try:
        ok = all(isinstance(x, set) for x in results) and expect_fn(results, S)
    except Exception:
        ok = False
    if any(isinstance(x, set) and x and x != S for x in results):
        LOG.mark_nontrivial((name, sub, nk.key(), tuple(trees)))
    if not ok:
        LOG.violation('c04.' + name, PROP,
                      {'relation': '%s:%s' % (name, sub), 'K': nk.to_json(),
                       'formulas': [t for t in trees],
                       'shown': [show(t) for t in trees]},
                      [sorted(map(repr, x)) if isinstance(x, set)
                       else mon.fmt_exc(x) for x in results],
                      note, note='relation broken')


def call(logic, K, f):
    try:
        return mc(logic, K, f)
    except Exception as e:
        return e


def obj(logic, t, raw=False):
    return build(lang(logic), t, raw_leaves=raw)


# ---- R1 / R2 -------------------------------------------------------------

def r1_ctl_ltl_ctls(nk, K, t, i):
    """t = ('A', (op, pl...)) in all three logics."""
    rs = [call('CTL', K, obj('CTL', t)), call('LTL', K, obj('LTL', t)),
          call('CTLS', K, obj('CTLS', t))]
    relate('R1', 'CTL=LTL', nk, K, [t], rs,
           lambda r, S: r[0] == r[1] == r[2], 'CTL = LTL = CTLS on A-formula')
    if i % 3 == 0:
        txt = mcwork.text_of('CTLS', t)
        rs2 = [call('CTL', K, mcwork.text_of('CTL', t)),
               call('LTL', K, mcwork.text_of('LTL', t)),
               call('CTLS', K, txt), rs[0]]
        relate('R2', 'text3', nk, K, [t], rs2,
               lambda r, S: r[0] == r[1] == r[2] == r[3],
               'text through each parser = object')


def r1_ctl_ctls(nk, K, t, i):
    a = call('CTL', K, obj('CTL', t, raw=i % 2 == 0))
    b = call('CTLS', K, obj('CTLS', t))
    relate('R1', 'CTL=CTLS', nk, K, [t], [a, b],
           lambda r, S: r[0] == r[1], 'CTL.mc(f) = CTLS.mc(f)')
    if i % 4 == 0:
        # objects re-typed with cast_to
        fc = obj('CTL', t)
        rs = [a, call('CTLS', K, fc.cast_to(lang('CTLS'))),
              call('CTL', K, obj('CTLS', t).cast_to(lang('CTL'))),
              call('CTLS', K, fc)]      # CTL objects are CTL* objects
        relate('R1', 'cast', nk, K, [t], rs,
               lambda r, S: r[0] == r[1] == r[2] == r[3],
               'cast_to objects give the same set')
    if i % 4 == 1:
        rs = [a, call('CTL', K, mcwork.text_of('CTL', t)),
              call('CTLS', K, mcwork.text_of('CTLS', t))]
        relate('R2', 'ctl_text', nk, K, [t], rs,
               lambda r, S: r[0] == r[1] == r[2], 'text = object')
    if i % 4 == 3:
        # ONE formula object handed to several checkers in turn
        fo = obj('CTL', t)
        rs = [call('CTL', K, fo), call('CTLS', K, fo), call('CTL', K, fo),
              call('CTLS', K, fo.cast_to(lang('CTLS'))), call('CTL', K, fo)]
        relate('R1', 'object_reuse', nk, K, [t], rs,
               lambda r, S: all(x == r[0] for x in r),
               'one object through CTL, CTL*, CTL again')
        g4 = ('or', t, ('ap', 'q'), ('not', t), ('ap', 'p'))
        rs = [call('CTL', K, obj('CTL', g4)),
              call('CTL', K, mcwork.text_of('CTL', g4)),
              call('CTLS', K, obj('CTLS', g4, raw=True))]
        relate('R2', 'nary4', nk, K, [g4], rs,
               lambda r, S: r[0] == r[1] == r[2] == S,
               '4-ary tautology: text = object = all states')
    if i % 4 == 2:
        rr = gen.rng(0, PROP, ('fancy', i))
        rs = [a, call('CTL', K, mcwork.fancy_text('CTL', t, rr)),
              call('CTLS', K, mcwork.fancy_text('CTLS', t, rr))]
        relate('R2', 'synonyms_spacing', nk, K, [t], rs,
               lambda r, S: r[0] == r[1] == r[2],
               'text with ~ | & and irregular blanks = object')
        # n-ary and/or as ONE text operator vs object vs nested binary
        g = ('ap', 'q')
        t3 = ('and', t, g, ('not', t))
        o3 = ('or', t, g, ('not', g))
        for tn, nested in ((t3, ('and', ('and', t, g), ('not', t))),
                           (o3, ('or', t, ('or', g, ('not', g))))):
            rs = [call('CTL', K, obj('CTL', tn)),
                  call('CTL', K, mcwork.text_of('CTL', tn)),
                  call('CTLS', K, mcwork.fancy_text('CTLS', tn, rr)),
                  call('CTL', K, obj('CTL', nested))]
            relate('R2', 'nary_text', nk, K, [tn], rs,
                   lambda r, S: r[0] == r[1] == r[2] == r[3],
                   'n-ary operator: text = object = nested binary')


def r1_ltl_ctls(nk, K, g, i):
    t = ('A', g)
    a = call('LTL', K, obj('LTL', t, raw=i % 2 == 0))
    b = call('CTLS', K, obj('CTLS', t))
    relate('R1', 'LTL=CTLS', nk, K, [t], [a, b],
           lambda r, S: r[0] == r[1], 'LTL.mc(A g) = CTLS.mc(A g)')
    if i % 4 == 2:
        rr = gen.rng(0, PROP, ('fancyl', i))
        rs = [a, call('LTL', K, mcwork.fancy_text('LTL', t, rr)),
              call('CTLS', K, mcwork.fancy_text('CTLS', t, rr))]
        relate('R2', 'synonyms_spacing', nk, K, [t], rs,
               lambda r, S: r[0] == r[1] == r[2],
               'text with ~ | & and irregular blanks = object')
    if i % 4 == 0:
        rs = [a, call('LTL', K, mcwork.text_of('LTL', t)),
              call('CTLS', K, obj('LTL', t).cast_to(lang('CTLS'))),
              call('CTLS', K, obj('LTL', t))]
        relate('R2', 'ltl_text_cast', nk, K, [t], rs,
               lambda r, S: r[0] == r[1] == r[2] == r[3],
               'text / cast = object')


def r1_pl(nk, K, t, i):
    """propositional formulas: PL-class objects through cast, own-class
    objects in CTL and CTL*."""
    PL = lang('PL')
    f = obj('PL', t)
    rs = [call('CTL', K, obj('CTL', t)), call('CTLS', K, obj('CTLS', t)),
          call('CTL', K, f),                       # CTL casts foreign objects
          call('CTLS', K, f.cast_to(lang('CTLS'))),
          call('CTL', K, mcwork.text_of('CTL', t)),
          call('CTLS', K, mcwork.text_of('CTLS', t))]
    relate('R1', 'PL', nk, K, [t], rs,
           lambda r, S: all(x == r[0] for x in r),
           'propositional formula: one answer through every entry point')
    raw = call('CTLS', K, f)
    if isinstance(raw, set):
        relate('R1', 'PL_raw_ctls', nk, K, [t], [rs[0], raw],
               lambda r, S: r[0] == r[1], 'raw PL object to CTLS')
    elif isinstance(raw, TypeError):
        LOG.counters['c04.raw_foreign_rejected.CTLS(PL)'] += 1
    else:
        relate('R1', 'PL_raw_ctls', nk, K, [t], [rs[0], raw],
               lambda r, S: False, 'a set or TypeError')


# ---- R3 ------------------------------------------------------------------

def r3(logic, nk, K, f, g, i):
    a = call(logic, K, obj(logic, f))
    b = call(logic, K, obj(logic, g))
    n = call(logic, K, obj(logic, ('not', f)))
    relate('R3', 'not', nk, K, [f], [a, n],
           lambda r, S: r[1] == S - r[0], 'mc(not f) = S - mc(f)')
    an = call(logic, K, obj(logic, ('and', f, g)))
    relate('R3', 'and', nk, K, [f, g], [a, b, an],
           lambda r, S: r[2] == r[0] & r[1], 'mc(f and g) = mc f & mc g')
    o = call(logic, K, obj(logic, ('or', f, g)))
    relate('R3', 'or', nk, K, [f, g], [a, b, o],
           lambda r, S: r[2] == r[0] | r[1], 'mc(f or g) = mc f | mc g')
    im = call(logic, K, obj(logic, ('imply', f, g)))
    relate('R3', 'imply', nk, K, [f, g], [a, b, im],
           lambda r, S: r[2] == (S - r[0]) | r[1],
           'mc(f --> g) = (S - mc f) | mc g')
    if i % 3 == 0:
        o3 = call(logic, K, obj(logic, ('or', f, g, ('not', f))))
        relate('R3', 'or3', nk, K, [f, g], [o3],
               lambda r, S: r[0] == S, 'mc(f or g or not f) = S')
        a3 = call(logic, K, obj(logic, ('and', f, g, ('not', g))))
        relate('R3', 'and3', nk, K, [f, g], [a3],
               lambda r, S: r[0] == set(), 'mc(f and g and not g) = {}')


def nary_family(nk, K, i, rr):
    """and/or with three or four DISTINCT operands (atoms p, q, r and small
    temporal formulas) below a temporal operator: the n-ary object, its text,
    the right- and left-nested binary forms, through every entry point that
    accepts the formula.  Operands beyond the second must count."""
    p_, q_, r_ = ('ap', 'p'), ('ap', 'q'), ('ap', 'r')
    plain = [p_, q_, r_, ('not', p_), ('not', q_), ('not', r_)]
    temporal = [('X', p_), ('X', q_), ('F', q_), ('G', p_), ('X', ('not', r_))]
    op = 'and' if i % 2 else 'or'
    k = 3 if i % 3 else 4
    ops = rr.sample(plain, k) if i % 4 < 2 else \
        rr.sample(plain, k - 1) + [rr.choice(temporal)]
    rr.shuffle(ops)
    wraps = [lambda x: ('A', ('G', x)), lambda x: ('A', ('F', x)),
             lambda x: ('A', ('X', x)), lambda x: ('A', x),
             lambda x: ('A', ('U', x, r_)), lambda x: ('A', ('U', p_, x)),
             lambda x: ('A', ('R', x, q_))]
    w = wraps[(i // 2) % len(wraps)]
    right = ops[-1]
    for o in reversed(ops[:-1]):
        right = (op, o, right)
    left = ops[0]
    for o in ops[1:]:
        left = (op, left, o)
    tn, tr, tl = w((op,) + tuple(ops)), w(right), w(left)
    LOG.sig['family:nary_distinct_operands'] += 1
    rs = [call('LTL', K, obj('LTL', tn)),
          call('LTL', K, mcwork.text_of('LTL', tn)),
          call('CTLS', K, obj('CTLS', tn, raw=True)),
          call('LTL', K, obj('LTL', tr)),
          call('CTLS', K, obj('CTLS', tl)),
          call('CTLS', K, mcwork.text_of('CTLS', tn))]
    if reflang.checkable(tn, 'CTL'):
        rs.append(call('CTL', K, obj('CTL', tn)))
        rs.append(call('CTL', K, mcwork.text_of('CTL', tn)))
    relate('R2', 'nary_routes', nk, K, [tn], rs,
           lambda r, S: all(x == r[0] for x in r),
           'n-ary object = text = nested binary forms, through every entry '
           'point that accepts the formula')


# ---- R4 ------------------------------------------------------------------

def nt(f):
    return ('not', f)


def r4_ctl(logic, nk, K, f, g, i):
    pairs = [
        ('AX', ('A', ('X', f)), nt(('E', ('X', nt(f))))),
        ('AF', ('A', ('F', f)), nt(('E', ('G', nt(f))))),
        ('AG', ('A', ('G', f)), nt(('E', ('F', nt(f))))),
        ('AU', ('A', ('U', f, g)), nt(('E', ('R', nt(f), nt(g))))),
        ('AR', ('A', ('R', f, g)), nt(('E', ('U', nt(f), nt(g))))),
        ('EU', ('E', ('U', f, g)), nt(('A', ('R', nt(f), nt(g))))),
        ('EG', ('E', ('G', f)), nt(('A', ('F', nt(f))))),
    ]
    for name, lhs, rhs in pairs:
        a = call(logic, K, obj(logic, lhs))
        b = call(logic, K, obj(logic, rhs))
        relate('R4', name, nk, K, [lhs, rhs], [a, b],
               lambda r, S: r[0] == r[1], 'A g = not E not g')


def r4_ctls(nk, K, g, i):
    a = call('CTLS', K, obj('CTLS', ('A', g)))
    b = call('CTLS', K, obj('CTLS', nt(('E', nt(g)))))
    relate('R4', 'ctls', nk, K, [('A', g)], [a, b],
           lambda r, S: r[0] == r[1], 'A g = not E not g in CTL*')
    e = call('CTLS', K, obj('CTLS', ('E', g)))
    ne = call('CTLS', K, obj('CTLS', nt(('A', nt(g)))))
    relate('R4', 'ctls_E', nk, K, [('E', g)], [e, ne],
           lambda r, S: r[0] == r[1], 'E g = not A not g in CTL*')
    relate('R4', 'ctls_A_subset_E', nk, K, [g], [a, e],
           lambda r, S: r[0] <= r[1], 'A g implies E g (total structures)')


# ---- R5 ------------------------------------------------------------------

def r5(logic, nk, K, f, g, i):
    def Q(q, op, *a):
        return (q, (op,) + a)
    laws = []
    for q in 'EA':
        u = Q(q, 'U', f, g)
        laws.append((q + 'U', u, ('or', g, ('and', f, Q(q, 'X', u)))))
        r_ = Q(q, 'R', f, g)
        laws.append((q + 'R', r_, ('and', g, ('or', f, Q(q, 'X', r_)))))
        gg = Q(q, 'G', f)
        laws.append((q + 'G', gg, ('and', f, Q(q, 'X', gg))))
        ff = Q(q, 'F', f)
        laws.append((q + 'F', ff, ('or', f, Q(q, 'X', ff))))
    for name, lhs, rhs in laws:
        a = call(logic, K, obj(logic, lhs))
        b = call(logic, K, obj(logic, rhs))
        relate('R5', name, nk, K, [lhs, rhs], [a, b],
               lambda r, S: r[0] == r[1], 'fix-point expansion law')
    # derived forms agree with their definitions
    a = call(logic, K, obj(logic, ('E', ('F', f))))
    b = call(logic, K, obj(logic, ('E', ('U', ('bool', True), f))))
    relate('R5', 'EF=E(true U f)', nk, K, [f], [a, b],
           lambda r, S: r[0] == r[1], 'EF f = E(true U f)')
    a = call(logic, K, obj(logic, ('A', ('G', f))))
    b = call(logic, K, obj(logic, ('A', ('R', ('bool', False), f))))
    relate('R5', 'AG=A(false R f)', nk, K, [f], [a, b],
           lambda r, S: r[0] == r[1], 'AG f = A(false R f)')


# ---- LTL laws ------------------------------------------------------------

def ltl_laws(nk, K, g, h, i):
    a = call('LTL', K, obj('LTL', ('A', g)))
    b = call('LTL', K, obj('LTL', ('A', h)))
    c = call('LTL', K, obj('LTL', ('A', ('and', g, h))))
    relate('L', 'A_and', nk, K, [g, h], [a, b, c],
           lambda r, S: r[2] == r[0] & r[1], 'mc(A(g and h)) = mc(A g) & '
           'mc(A h)')
    n = call('LTL', K, obj('LTL', ('A', nt(g))))
    relate('L', 'A_g_A_not_g', nk, K, [g], [a, n],
           lambda r, S: not (r[0] & r[1]), 'mc(A g) & mc(A not g) = {}')
    t = call('LTL', K, obj('LTL', ('A', ('or', g, nt(g)))))
    relate('L', 'A_taut', nk, K, [g], [t],
           lambda r, S: r[0] == S, 'mc(A(g or not g)) = S')
    o = call('LTL', K, obj('LTL', ('A', ('or', g, h))))
    relate('L', 'A_or_superset', nk, K, [g, h], [a, b, o],
           lambda r, S: (r[0] | r[1]) <= r[2], 'mc(A g) | mc(A h) <= '
           'mc(A(g or h))')
    # expansion laws inside A
    u = ('U', g, h)
    x = call('LTL', K, obj('LTL', ('A', u)))
    y = call('LTL', K, obj('LTL', ('A', ('or', h, ('and', g, ('X', u))))))
    relate('L', 'U_expansion', nk, K, [g, h], [x, y],
           lambda r, S: r[0] == r[1], 'A(g U h) = A(h or (g and X(g U h)))')
    x = call('LTL', K, obj('LTL', ('A', ('G', g))))
    y = call('LTL', K, obj('LTL', ('A', ('and', g, ('X', ('G', g))))))
    relate('L', 'G_expansion', nk, K, [g], [x, y],
           lambda r, S: r[0] == r[1], 'A(G g) = A(g and X G g)')


def attach():
    mcwrap.attach()


def is_pl(t):
    return 'PL' in reflang.kinds(t)


def run(ctx):
    attach()
    r = gen.rng(ctx.seed, PROP, 'main')
    F1 = gen.enum_ctl(1)
    P1 = gen.enum_ltl_path(1)
    PL1 = [t for t in F1 if is_pl(t)]
    shared = []                        # CTL & LTL & CTL*: A over one operator
    for a in PL1[:14]:
        for op in 'XFG':
            shared.append(('A', (op, a)))
        for b in PL1[:8]:
            shared.append(('A', ('U', a, b)))
            shared.append(('A', ('R', a, b)))
    from ..neutral import count_ops, TEMPORAL
    global AE_FAMILY, P2
    P2 = [g for g in gen.enum_ltl_path(2)[len(P1):]
          if 2 <= count_ops(g, TEMPORAL) <= 3]
    p_, q_ = ('ap', 'p'), ('ap', 'q')
    AE_FAMILY = []
    for g in (('X', p_), ('F', p_), ('G', p_), ('U', p_, q_), ('R', p_, q_),
              ('G', ('not', p_)), ('F', ('and', p_, q_)), ('X', ('not', q_))):
        Ag, Eg = ('A', g), ('E', g)
        AE_FAMILY += [('and', Eg, ('not', Ag)), ('imply', Eg, Ag),
                      ('or', Ag, ('not', Eg)), ('and', ('not', Ag), Eg),
                      ('E', ('F', ('and', Eg, ('not', Ag)))),
                      ('A', ('G', ('imply', Eg, Ag)))]
    reps = {n: list(gen.representatives(n)) for n in (1, 2, 3)}
    if ctx.quick:
        structs = reps[1] + r.sample(reps[2], 24) + r.sample(reps[3], 20)
        nrand = 40
        per = 14
    else:
        structs = reps[1] + reps[2] + r.sample(reps[3], 700)
        nrand = 3000
        per = 30
    for k in range(nrand):
        structs.append(gen.random_structure(r, 5 if k % 3 else 7,
                                            atoms=('p', 'q')))
    i = 0
    for si, nk in enumerate(structs):
        rr = gen.rng(ctx.seed, PROP, si)
        if not ctx.mine(si):
            continue
        K = mcwork.kripke_of(nk)
        for t in rr.sample(shared, per):
            r1_ctl_ltl_ctls(nk, K, t, i)
            i += 1
        for t in rr.sample(F1, per) + [gen.random_ctl(rr, 3, ('p', 'q'))
                                      for _ in range(4)] + \
                [gen.random_ctl(rr, 4, ('p', 'q')) for _ in range(2)]:
            r1_ctl_ctls(nk, K, t, i)
            i += 1
        for g in rr.sample(P1, per) + [gen.random_ltl_path(
                rr, 2, ('p', 'q'), max_temporal=3) for _ in range(3)]:
            r1_ltl_ctls(nk, K, g, i)
            i += 1
        for t in rr.sample(PL1, min(per, len(PL1))):
            r1_pl(nk, K, t, i)
            i += 1
        for _ in range(per):
            f, g = rr.choice(F1), rr.choice(F1)
            logic = 'CTL' if i % 2 else 'CTLS'
            r3(logic, nk, K, f, g, i)
            i += 1
        # the same path formula under both quantifiers in one formula
        for t in rr.sample(AE_FAMILY, 6 if ctx.quick else 14):
            LOG.sig['family:A_and_E_same_path'] += 1
            r1_ctl_ctls(nk, K, t, i)
            r1_ctl_ctls(nk, K, t, 4 * (i // 4))          # with casts
            i += 1
        # n-ary and/or with distinct operands, also on a sibling structure
        # that carries a third atom r
        K3 = mcwork.kripke_of(NK(nk.states, nk.succ, [
            frozenset(l) | ({'r'} if (j + si) % 3 == 0 else frozenset())
            for j, l in enumerate(nk.labels)]))
        nk3 = NK(nk.states, nk.succ, [
            frozenset(l) | ({'r'} if (j + si) % 3 == 0 else frozenset())
            for j, l in enumerate(nk.labels)])
        for _ in range(4 if ctx.quick else 10):
            nary_family(nk3, K3, i, rr)
            i += 1
        # a unary temporal operator over a binary operator whose operands are
        # raw strings, under several atom namings (the tableau's processing
        # order depends on the names' hashes): all construction routes agree
        if si % 3 == 0:
            names = [('p', 'q'), ('q', 'p'), ('a', 'b'), ('x1', 'x2'),
                     ('alpha', 'beta'), ('Start', 'Heat'), ('b', 'a')]
            from ..neutral import rename_atoms
            for un in ('X', 'F', 'G'):
                for bop in ('U', 'R', 'or', 'and', 'imply'):
                    n1, n2 = names[(i + len(un) + len(bop)) % len(names)]
                    g = (un, (bop, ('ap', 'p'), ('ap', 'q')))
                    t2 = ('A', g)
                    ren = {'p': n1, 'q': n2}
                    K2 = mcwork.kripke_of(NK(nk.states, nk.succ, [
                        frozenset(ren.get(a, a) for a in l)
                        for l in nk.labels]))
                    t3 = rename_atoms(t2, ren)
                    LOG.sig['family:unary_over_binary_raw'] += 1
                    rs = [call('LTL', K2, obj('LTL', t3, raw=True)),
                          call('LTL', K2, obj('LTL', t3, raw=False)),
                          call('LTL', K2, mcwork.text_of('LTL', t3)),
                          call('CTLS', K2, obj('CTLS', t3, raw=True))]
                    # the CTL entry point only applies to CTL-shaped formulas
                    if reflang.checkable(t3, 'CTL'):
                        rs.append(call('CTL', K2, obj('CTL', t3, raw=True)))
                    relate('R2', 'ltl_routes', nk, K2, [t3], rs,
                           lambda r, S: all(x == r[0] for x in r),
                           'raw-leaf object = wrapped object = text = other '
                           'entry points')
                    i += 1
        # depth-2 LTL formulas: raw-leaf objects, wrapped objects, text and
        # the CTL* entry point
        for g in rr.sample(P2, 5 if ctx.quick else 12):
            LOG.sig['family:ltl_depth2_routes'] += 1
            t2 = ('A', g)
            rs = [call('LTL', K, obj('LTL', t2, raw=True)),
                  call('LTL', K, obj('LTL', t2, raw=False)),
                  call('LTL', K, mcwork.text_of('LTL', t2)),
                  call('CTLS', K, obj('CTLS', t2, raw=True)),
                  call('CTLS', K, mcwork.text_of('CTLS', t2))]
            relate('R2', 'ltl_routes', nk, K, [t2], rs,
                   lambda r, S: all(x == r[0] for x in r),
                   'raw-leaf object = wrapped object = text = CTL* entry')
        for _ in range(max(3, per // 3)):
            f, g = rr.choice(F1), rr.choice(F1)
            logic = 'CTL' if i % 3 else 'CTLS'
            r4_ctl(logic, nk, K, f, g, i)
            r5(logic, nk, K, f, g, i)
            i += 1
        for _ in range(max(3, per // 3)):
            g = rr.choice(P1) if rr.random() < 0.7 else \
                gen.random_ltl_path(rr, 2, ('p', 'q'), max_temporal=2)
            r4_ctls(nk, K, g, i)
            h = rr.choice(P1)
            ltl_laws(nk, K, g, h, i)
            i += 1
        if si % 9 == 0:
            LOG.sample({'K': nk.to_json(),
                        'relations': 'R1..R5, L on sampled formulas',
                        'example_pair': [show(rr.choice(F1)),
                                         show(rr.choice(F1))]})


def replay(ctx, rep):
    attach()
    from ..mcwork import to_tuple, nk_from_json
    c = rep['case']
    nk = nk_from_json(c['K'])
    K = mcwork.kripke_of(nk)
    ts = [to_tuple(t) for t in c['formulas']]
    name, sub = c['relation'].split(':', 1)
    f = ts[0]
    g = ts[1] if len(ts) > 1 else ts[0]
    if name == 'R3':
        r3('CTL', nk, K, f, g, 0)
        r3('CTLS', nk, K, f, g, 0)
    elif name == 'R5' or name == 'R4':
        # formulas recorded are (lhs, rhs): compare directly
        for logic in ('CTL', 'CTLS'):
            a = call(logic, K, obj(logic, f))
            b = call(logic, K, obj(logic, g))
            relate(name, sub, nk, K, ts, [a, b],
                   lambda r, S: r[0] == r[1], 'replayed law')
    elif name == 'L':
        ltl_laws(nk, K, f, g, 0)
    else:
        t = f
        if reflang.checkable(t, 'CTL') and reflang.checkable(t, 'LTL'):
            r1_ctl_ltl_ctls(nk, K, t, 0)
        if reflang.checkable(t, 'CTL'):
            r1_ctl_ctls(nk, K, t, 0)
            r1_ctl_ctls(nk, K, t, 1)
        if reflang.checkable(t, 'LTL'):
            r1_ltl_ctls(nk, K, t[1], 0)
        if is_pl(t):
            r1_pl(nk, K, t, 0)
