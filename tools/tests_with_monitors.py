#!/venv/bin/python
"""Run the repository's own test-suite with every monitor attached.

Anything that fires here is either a too-strict monitor or a defect the tests
do not assert.  Usage: PYTHONPATH=/repo:/verif:/verif/.deps tools/tests_with_monitors.py
"""
import json
import sys
import importlib

sys.path.insert(0, '/verif')
sys.path.insert(1, '/verif/.deps')
from vmon import mon  # noqa
mon.assert_repo()
for p in ('c01', 'c02', 'c03', 'c05', 'c07', 'c08', 'c10', 'c12', 'c13',
          'c14', 'c15', 'c16', 'c17', 'c19'):
    m = importlib.import_module('vmon.props.' + p)
    m.attach()
import pytest  # noqa
rc = pytest.main(['-q', '-p', 'no:cacheprovider', '/repo/pyModelChecking'])
rep = mon.LOG.report()
print('pytest exit', rc)
print('monitor evaluations:', json.dumps(rep['evals'], indent=1))
print('violations by monitor:', rep['nviol'])
print('by finding:', rep['nfind'])
for v in rep['violations'][:30]:
    print(json.dumps({k: v[k] for k in ('monitor', 'note', 'case', 'observed',
                                         'expected', 'finding') if k in v},
                     default=repr)[:700])
