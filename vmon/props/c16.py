"""C16 -- equal Boolean functions share one OBDD under every creation / GC
history.

Monitors
 c16.new     online checker on every BDDNonTerminalNode.__new__ return, against
             a shadow unique table kept by the harness (WeakValueDictionary
             keyed by (var, id(low), id(high)) -- independent of the f_low /
             f_high weak sets under test): low is high -> returns low; a live
             node with that triple exists -> returns that very object;
             otherwise a new node with exactly those fields
 c16.census  invariant at quiescent points, through gc.get_objects() (again
             independent of the tables under test): no two live non-terminal
             nodes share (var, low, high), no node has low is high, one
             terminal per truth value
 c16.canon   for all pairs in the live pool: a == b  <=>  a.root is b.root
             <=>  equal truth tables (independent walker)
 c16.links   (diagnostic) every live node is in its children's parent sets
Fault injection: a sys.monitoring LINE callback on the code objects of
BDD/BDD.py acts as scheduler -- at statement boundaries inside find_isomorph,
__new__, __reset__, apply, compute, cache_restrict, __invert__ it drops
harness-held references (refcount deallocation => WeakSet removal while the
table is being iterated), breaks planted garbage cycles' last external
reference, and forces gc.collect().
"""

import gc
import itertools
import random
import sys
import weakref

from .. import mon, gen, refbool
from ..mon import LOG

PROP = 'C16'

CONFIG = {
    'technique': ('runtime monitoring with fault injection: online checker of '
                  'the hash-consing specification against a shadow table, '
                  'gc.get_objects() census invariant, pairwise canonicity '
                  'monitor; sys.monitoring LINE callback injects reference '
                  'drops and garbage collections inside the BDD code'),
    'level_text': ('Random histories (build from expression, & | ^ ~, '
                   'restrict, drop, plant in a garbage cycle, collect) over a '
                   'pool of <=40 OBDDs on <=4 variables are executed while an '
                   'injector drops references and forces collections at '
                   'statement boundaries inside the unique-table code; every '
                   'node creation is checked online and the live heap is '
                   'audited at quiescent points.'
                   ' Also: wide histories (5-6 variables, pool of 160), long'
                   ' histories, and targeted id-reuse rounds (use an operand, age'
                   ' the caches, drop it, allocate a different node at the freed'
                   ' address); every pool entry carries the truth table it is'
                   ' meant to denote.'),
    'level_note': ('Trusted base: the shadow table and census in '
                   'vmon/props/c16.py, refbool walker, CPython weakref/gc '
                   'semantics. A finite sample of histories and injection '
                   'points (evidence lists how many of each were seen).'),
    'deciding': ['c16.new', 'c16.census', 'c16.canon'],
    'shards': {'quick': 16, 'thorough': 16},
    'hashseeds': {'quick': 2, 'thorough': 2},
    'min_evals': {'quick': {'c16.new': 200000, 'c16.census': 500,
                            'c16.canon': 50000},
                  'thorough': {'c16.new': 5000000}},
    'internal_sig': ['inject:drop_in_find_isomorph',
                     'inject:gc_in_find_isomorph'],
    'must_sig': ['new:created', 'new:reused', 'new:collapsed',
                 'inject:drop_in_find_isomorph', 'inject:gc_in_find_isomorph',
                 'inject:drop', 'inject:gc', 'step:cycle', 'step:restrict',
                 'step:xor', 'died', 'history:wide', 'history:long',
                 'idreuse:same_address'],
    'rule': ('cases = operation histories (300 steps quick / 1500 thorough) '
             'over a pool of <=40 OBDDs, <=4 variables, one random ordering '
             'per history, with injected drops/collections; plus all pairs '
             'of expressions over <=3 variables built in both orders '
             '(thorough). non-trivial = a __new__ call that had to decide '
             'between reusing a live node and creating one (both children '
             'distinct), counted per history as distinct (history, creation '
             'index); distinct histories by seed'),
    'exhaustive': {'quick': False, 'thorough': False},
    'assumptions': ['reference drops are injected only for references the '
                    'harness itself holds (the pool, planted cycles)'],
}

TOOL = 3
_shadow = weakref.WeakValueDictionary()
_state = {'inj': None, 'in_new': 0, 'created': 0, 'hist': 0}
_bm = [None]


# ---- online checker on __new__ -------------------------------------------

def _wrap_new(orig, NT):
    def __new__(cls, var, low, high):
        key = None
        existing = None
        try:
            key = (var, id(low), id(high))
            existing = _shadow.get(key)
            if existing is not None and not (existing.low is low and
                                             existing.high is high and
                                             existing.var == var):
                existing = None      # stale id reuse (cannot happen while
                #                      the entry is alive, but be safe)
        except Exception:
            pass
        inj = _state['inj']
        if inj is not None:
            inj.depth += 1
        try:
            node = orig(cls, var, low, high)
        finally:
            if inj is not None:
                inj.depth -= 1
        if key is None:
            return node
        LOG.hit('c16.new')
        _state['created'] += 1
        bad = None
        if low is high:
            LOG.sig['new:collapsed'] += 1
            if node is not low:
                bad = 'low is high but a node other than low was returned'
        elif existing is not None:
            LOG.sig['new:reused'] += 1
            LOG.counters['nontrivial_new'] += 1
            if node is not existing:
                bad = ('a live node with the same (var, low, high) exists '
                       'but another object was returned (duplicate created)')
        else:
            LOG.sig['new:created'] += 1
            LOG.counters['nontrivial_new'] += 1
            if type(node) is not NT or node.var != var or \
                    node.low is not low or node.high is not high:
                bad = 'new node does not carry the requested fields'
            else:
                _shadow[key] = node
        if bad:
            LOG.violation('c16.new', PROP,
                          {'history': _state['hist'], 'var': var,
                           'low': str(low), 'high': str(high),
                           'creation_index': _state['created'],
                           'replay': _replay_info()},
                          str(node), 'the unique node', note=bad)
        return node
    return __new__


def _replay_info():
    inj = _state['inj']
    return {'history': _state['hist'],
            'injector': inj.describe() if inj else None}


# ---- census ---------------------------------------------------------------

def census(where):
    bm = _bm[0]
    NT, T = bm.BDDNonTerminalNode, bm.BDDTerminalNode
    LOG.hit('c16.census')
    triples = {}
    terms = {}
    nlive = 0
    for o in gc.get_objects():
        t = type(o)
        if t is NT:
            nlive += 1
            try:
                key = (o.var, id(o.low), id(o.high))
            except AttributeError:
                continue          # being constructed
            if o.low is o.high:
                LOG.violation('c16.census', PROP,
                              {'where': where, 'replay': _replay_info()},
                              str(o), 'low is not high',
                              note='live node with identical children')
            if key in triples:
                LOG.violation('c16.census', PROP,
                              {'where': where, 'var': o.var,
                               'low': str(o.low), 'high': str(o.high),
                               'replay': _replay_info()},
                              'two live nodes with one (var, low, high)',
                              'at most one',
                              note='duplicate triple in the live heap')
            triples[key] = o
        elif t is T:
            v = bool(o.value)
            if v in terms and terms[v] is not o:
                LOG.violation('c16.census', PROP, {'where': where},
                              'two terminals for %r' % v, 'one',
                              note='terminal not a singleton')
            terms[v] = o
    LOG.counters['census_live_nodes_max'] = max(
        LOG.counters.get('census_live_nodes_max', 0), nlive)
    # diagnostic: parent links
    LOG.hit('c16.links')
    for o in triples.values():
        try:
            if o not in o.low.f_low or o not in o.high.f_high:
                LOG.violation('c16.links', PROP + '-diag',
                              {'where': where, 'node': str(o)},
                              'missing from a child\'s parent set',
                              'registered in low.f_low and high.f_high',
                              note='unique-table link missing')
                break
        except Exception:
            pass
    return nlive


# ---- injector ---------------------------------------------------------------

class Injector(object):
    def __init__(self, seed, pool, cycles, pdrop, pgc):
        self.r = random.Random(seed)
        self.seed = seed
        self.pool = pool
        self.cycles = cycles
        self.pdrop = pdrop
        self.pgc = pgc
        self.enabled = False
        self.depth = 0
        self.busy = False
        self.events = 0
        self.in_fi = 0

    def describe(self):
        return {'seed': self.seed, 'pdrop': self.pdrop, 'pgc': self.pgc,
                'events_so_far': self.events}

    def on_line(self, code, line):
        if not self.enabled or self.busy:
            return None
        self.events += 1
        LOG.counters['inject.line_events'] += 1
        x = self.r.random()
        if x >= self.pdrop + self.pgc:
            return None
        self.busy = True
        try:
            fi = code.co_name == 'find_isomorph'
            if x < self.pdrop:
                # drop a harness-held reference: either a pool slot or the
                # last outside reference to a planted cycle
                if self.cycles and self.r.random() < 0.3:
                    self.cycles.pop(self.r.randrange(len(self.cycles)))
                    LOG.sig['inject:drop_cycle_ref'] += 1
                else:
                    live = [i for i, o in enumerate(self.pool)
                            if o is not None]
                    if len(live) > 2:
                        self.pool[self.r.choice(live)] = None
                LOG.sig['inject:drop'] += 1
                if fi:
                    LOG.sig['inject:drop_in_find_isomorph'] += 1
            else:
                gc.collect()
                LOG.sig['inject:gc'] += 1
                if fi:
                    LOG.sig['inject:gc_in_find_isomorph'] += 1
        finally:
            self.busy = False
        return None


_inj_installed = [False]


def install_injector_hooks():
    if _inj_installed[0]:
        return
    m = sys.monitoring
    m.use_tool_id(TOOL, 'vmon-injector')
    bm = _bm[0]

    def cb(code, line):
        inj = _state['inj']
        if inj is not None:
            return inj.on_line(code, line)
        return None
    m.register_callback(TOOL, m.events.LINE, cb)
    NT = bm.BDDNonTerminalNode
    funcs = [_orig['new']]
    for name in ('find_isomorph', 'apply', 'compute', 'cache_restrict',
                 'compute_restrict', 'BDDsons_and_BDD', 'BDD_and_BDDsons',
                 'BDDsons_and_BDDsons'):
        f = getattr(bm, name, None)
        if f is None:
            # private helper renamed/removed by a refactoring: inject at the
            # remaining sites; requirements naming it are waived
            LOG.counters['internal_hooks_unavailable'] += 1
            LOG.notes.append('injector: BDD.%s not found' % name)
        else:
            funcs.append(f)
    for cls, name in ((NT, '__reset__'), (bm.BDDNode, '__reset__'),
                      (NT, '__invert__'), (bm.BDDTerminalNode, '__invert__')):
        f = cls.__dict__.get(name)
        if f is not None:
            funcs.append(f)
    for f in funcs:
        code = getattr(f, '__code__', None)
        if code is not None:
            m.set_local_events(TOOL, code, m.events.LINE)
    _inj_installed[0] = True


_orig = {}


def attach():
    def do():
        import pyModelChecking.BDD   # noqa
        bm = sys.modules['pyModelChecking.BDD.BDD']
        _bm[0] = bm
        NT = bm.BDDNonTerminalNode
        orig = NT.__dict__['__new__']
        if isinstance(orig, staticmethod):
            orig = orig.__func__
        _orig['new'] = orig
        NT.__new__ = staticmethod(_wrap_new(orig, NT))
        install_injector_hooks()
        return True
    return mon.attach_once('c16', do)


# ---- workload ----

class Cell(object):
    """Node of a planted garbage cycle."""
    __slots__ = ('other', 'payload', '__weakref__')


def plant_cycle(objs):
    a, b = Cell(), Cell()
    a.other, b.other = b, a
    a.payload = list(objs)
    b.payload = None
    return a


def random_expr_text(r, vs, depth):
    if depth == 0 or r.random() < 0.2:
        return r.choice(vs)
    k = r.random()
    if k < 0.25:
        return '~(%s)' % random_expr_text(r, vs, depth - 1)
    op = r.choice([' & ', ' | '])
    return '(%s)%s(%s)' % (random_expr_text(r, vs, depth - 1), op,
                           random_expr_text(r, vs, depth - 1))


class Ent(object):
    """Pool entry: a real OBDD plus the truth table it is MEANT to denote,
    computed by the harness from the operation history (never from the
    diagram)."""
    __slots__ = ('o', 'tt')

    def __init__(self, o, tt):
        self.o = o
        self.tt = tt


def canon_check(pool, order, where):
    live = [e for e in pool if e is not None]
    n = len(order)
    for e in live:
        LOG.hit('c16.denotes')
        got = refbool.tt_of_node(e.o.root, order)
        if got != e.tt:
            LOG.violation('c16.canon', PROP,
                          {'where': where, 'order': order,
                           'diagram': str(e.o.root), 'replay': _replay_info()},
                          {'tt_of_diagram': got}, {'tt_meant': e.tt},
                          note='an OBDD obtained through the history does '
                               'not denote the function its operations '
                               'define (stale or wrong result)')
    for i in range(len(live)):
        for j in range(i, len(live)):
            LOG.hit('c16.canon')
            a, b = live[i].o, live[j].o
            same_fn = live[i].tt == live[j].tt
            try:
                eq = (a == b)
                eq2 = (b == a)
            except Exception as e:
                eq = eq2 = 'raised ' + mon.fmt_exc(e)
            ident = a.root is b.root
            if not (eq is same_fn and eq2 is same_fn and ident is same_fn):
                LOG.violation('c16.canon', PROP,
                              {'where': where, 'order': order,
                               'a': str(a.root), 'b': str(b.root),
                               'replay': _replay_info()},
                              {'a==b': eq, 'b==a': eq2,
                               'same_root': ident, 'same_function': same_fn},
                              'all four agree',
                              note='equal functions without a shared root'
                              if same_fn else
                              'different functions compare equal')


def _cofactor(tt, n, i, value):
    out = 0
    for k in range(1 << n):
        kk = (k | 1 << i) if value else (k & ~(1 << i))
        if tt >> kk & 1:
            out |= 1 << k
    return out


def history(ctx, hid, steps, inject=True, wide=False):
    from pyModelChecking.BDD import OBDD
    r = gen.rng(ctx.seed, PROP, hid)
    _state['hist'] = hid
    _state['created'] = 0
    if wide:
        # many variables and a large pool: parent sets of popular children
        # grow well beyond a handful of nodes
        nv = r.randint(5, 6)
        psize = 160
        LOG.sig['history:wide'] += 1
    else:
        nv = r.randint(2, 4)
        psize = 40
    vs = ['a', 'b', 'c', 'd', 'e', 'f'][:nv]
    order = list(vs)
    r.shuffle(order)
    full = (1 << (1 << nv)) - 1
    pool = [None] * psize
    cycles = []
    inj = Injector('%s/%s/%s' % (ctx.seed, hid, 'inj'), pool, cycles,
                   pdrop=r.choice([0.0, 0.01, 0.03, 0.08]) if inject else 0,
                   pgc=r.choice([0.0, 0.005, 0.02]) if inject else 0)
    _state['inj'] = inj
    before_dead = LOG.counters['nodes_died']
    every = 25 if not wide else 150

    def pick():
        live = [e for e in pool if e is not None]
        return r.choice(live) if live else None

    def put(o, tt):
        pool[r.randrange(len(pool))] = Ent(o, tt)

    def died(_):
        LOG.counters['nodes_died'] += 1
    try:
        for step in range(steps):
            k = r.random()
            if wide and k >= 0.7 and k < 0.85 and r.random() < 0.7:
                k = 0.1          # wide histories mostly build and combine
            inj.enabled = True
            try:
                if k < 0.22 or pick() is None:
                    LOG.sig['step:build'] += 1
                    txt = random_expr_text(r, vs, r.randint(1, 4))
                    tt = refbool.tt_of_expr(txt, order)
                    put(OBDD(txt, list(order)), tt)
                elif k < 0.5:
                    a, b = pick(), pick()
                    op = r.choice(['and', 'or', 'xor'])
                    LOG.sig['step:' + op] += 1
                    if op == 'and':
                        put(a.o & b.o, a.tt & b.tt)
                    elif op == 'or':
                        put(a.o | b.o, a.tt | b.tt)
                    else:
                        put(a.o ^ b.o, a.tt ^ b.tt)
                elif k < 0.6:
                    LOG.sig['step:invert'] += 1
                    a = pick()
                    put(~a.o, full & ~a.tt)
                elif k < 0.7:
                    LOG.sig['step:restrict'] += 1
                    a = pick()
                    v = r.choice(vs)
                    val = r.random() < 0.5
                    put(a.o.restrict(v, val),
                        _cofactor(a.tt, nv, order.index(v), val))
                elif k < 0.85:
                    LOG.sig['step:drop'] += 1
                    pool[r.randrange(len(pool))] = None
                elif k < 0.93:
                    LOG.sig['step:cycle'] += 1
                    objs = [pick() for _ in range(r.randint(1, 3))]
                    # move them from the pool into a garbage cycle: the
                    # cycle keeps them alive until a collection happens
                    for i, o in enumerate(pool):
                        if any(o is x for x in objs):
                            pool[i] = None
                    c = plant_cycle([x.o for x in objs if x is not None])
                    if r.random() < 0.5:
                        cycles.append(c)       # the injector may drop it
                    del c, objs
                else:
                    LOG.sig['step:gc'] += 1
                    gc.collect()
            finally:
                inj.enabled = False
            # track deaths of a few roots
            e = pick()
            if e is not None and type(e.o.root).__name__ == \
                    'BDDNonTerminalNode' and step % 7 == 0:
                try:
                    weakref.finalize(e.o.root, died, None)
                except TypeError:
                    pass
            a = b = e = None
            if step % every == every - 1:
                census('history %d step %d' % (hid, step))
                canon_check(pool, order, 'history %d step %d' % (hid, step))
        census('history %d end' % hid)
        canon_check(pool, order, 'history %d end' % hid)
    finally:
        _state['inj'] = None
    if LOG.counters['nodes_died'] > before_dead:
        LOG.sig['died'] += 1
    LOG.counters['histories'] += 1
    LOG.nontrivial_extra += LOG.counters.pop('nontrivial_new', 0)
    if hid % 16 == 0:
        LOG.sample({'history': hid, 'steps': steps, 'order': order,
                    'wide': wide, 'injector': inj.describe(),
                    'example_ops': ['build', '&', '|', '^', '~', 'restrict',
                                    'drop', 'cycle', 'gc']})
    # drop everything, collect: the heap must drain
    for i in range(len(pool)):
        pool[i] = None
    del cycles[:]
    gc.collect()


def id_reuse_rounds(ctx, rounds):
    """Hostile histories aimed at id() reuse: an operand is used, the caches
    are aged by many other applications, the operand is dropped so that it
    really dies, and a DIFFERENT node is allocated at once (CPython hands
    the freed block back, so it usually gets the same address); then the same
    operations are repeated with the newcomer.  Every result must denote the
    function its operations define and share roots with an independently
    parsed diagram."""
    from pyModelChecking.BDD import OBDD, BDDNode
    ops = (('and', lambda a, b: a & b), ('or', lambda a, b: a | b),
           ('xor', lambda a, b: a ^ b))
    for rd in range(rounds):
        if not ctx.mine(rd):
            continue
        r = gen.rng(ctx.seed, PROP, ('idreuse', rd))
        vs = ['a', 'b', 'c', 'd']
        # one ordering for a long run of rounds: per-ordering state (caches,
        # tables) of the library grows old, then the ordering changes
        order = list(itertools.permutations(vs))[
            (gen.rng(ctx.seed, PROP, 'idreuse-order').randrange(24)
             + rd // 60) % 24]
        order = list(order)
        full = (1 << 16) - 1
        top = order[0]
        rest = order[1:]
        _state['hist'] = 'idreuse-%d' % rd

        def sub():
            txt = random_expr_text(r, rest, r.randint(1, 3))
            return OBDD(txt, list(order)), refbool.tt_of_expr(txt, order)

        def ite(lo_tt, hi_tt):
            # function of: top ? hi : lo   (bit 0 of the index = order[0])
            out = 0
            for k in range(16):
                src = hi_tt if k & 1 else lo_tt
                if src >> k & 1:
                    out |= 1 << k
            return out

        def check(what, o, tt):
            LOG.hit('c16.denotes')
            got = refbool.tt_of_node(o.root, order)
            ref = OBDD(refbool.expr_of_tt(tt, order), list(order))
            if got != tt or not (o == ref and o.root is ref.root):
                LOG.violation(
                    'c16.canon', PROP,
                    {'where': 'id-reuse round %d: %s' % (rd, what),
                     'order': order, 'diagram': str(o.root),
                     'idreuse_round': rd},
                    {'tt_of_diagram': got, 'shares_root_with_parsed':
                     o.root is ref.root}, {'tt_meant': tt},
                    note='after a drop and an allocation at the freed '
                         'address, a result does not denote the function '
                         'its operations define')

        X, xtt = sub()
        X = OBDD('(%s) | (%s)' % (top, str(X.root) if str(X.root) not in
                                    ('0', '1') else rest[0]), list(order)) \
            if r.random() < 0.5 else X
        xtt = refbool.tt_of_node(X.root, order)      # X is only an operand
        (L, ltt), (H, htt) = sub(), sub()
        if L.root is H.root:
            continue
        Y = OBDD(BDDNode(top, L.root, H.root), list(order))
        ytt = ite(ltt, htt)
        # one operator per round touches Y, and the same operator does all
        # the ageing, so that whatever per-operator state the library keeps
        # about (X, Y) is certainly old when Y is dropped
        main = ops[rd % 3]
        use_not = rd % 2 == 1
        tts = {'and': xtt & ytt, 'or': xtt | ytt, 'xor': xtt ^ ytt}
        # only ONE operand order per round (alternating): computing both
        # would let symmetric bookkeeping mistakes cancel out
        swap = (rd // 3) % 2 == 1
        results = [main[1](Y, X) if swap else main[1](X, Y)]
        check('%s before drop' % main[0], results[0], tts[main[0]])
        NY = None
        if use_not:
            NY = ~Y
            check('not before drop', NY, full & ~ytt)
        # age every cache with many other applications of each operator
        # (hundreds of recursive apply steps per operator, so that bounded
        # tables turn over)
        def big():
            txt = random_expr_text(r, vs, r.randint(2, 4))
            return OBDD(txt, list(order)), refbool.tt_of_expr(txt, order)
        # fresh operands every time: repeated pairs would only hit caches
        for j in range(r.randint(150, 210)):
            a, b = big(), big()
            o = main[1](a[0], b[0])
            if use_not and j % 5 == 0:
                o = ~a[0]
        others = None
        a = b = o = None
        old_id = id(Y.root)
        keep_results = r.random() < 0.5
        if not keep_results:
            results = None
            NY = None
        Y = None                      # the root of Y dies here
        Y2 = OBDD(BDDNode(top, H.root, L.root), list(order))   # swapped
        y2tt = ite(htt, ltt)
        if id(Y2.root) == old_id:
            LOG.sig['idreuse:same_address'] += 1
        else:
            LOG.sig['idreuse:other_address'] += 1
        exp = {'and': xtt & y2tt, 'or': xtt | y2tt,
               'xor': xtt ^ y2tt}[main[0]]
        check('%s after drop' % main[0],
              main[1](Y2, X) if swap else main[1](X, Y2), exp)
        check('%s after drop (other operand order)' % main[0],
              main[1](X, Y2) if swap else main[1](Y2, X), exp)
        if use_not:
            check('not after drop', ~Y2, full & ~y2tt)
        check('restrict after drop', Y2.restrict(top, True), ltt)
        # the same text under another ordering after the first one died
        txt = random_expr_text(r, vs, 3)
        o1 = OBDD(txt, list(order))
        t1 = refbool.tt_of_expr(txt, order)
        check('parse', o1, t1)
        o1 = None
        order2 = list(reversed(order))
        o2 = OBDD(txt, list(order2))
        LOG.hit('c16.denotes')
        why = refbool.structure_problem(o2.root, order2)
        if why or refbool.tt_of_node(o2.root, order2) != \
                refbool.tt_of_expr(txt, order2):
            LOG.violation('c16.canon', PROP,
                          {'where': 'id-reuse round %d: reparse under '
                                    'another ordering' % rd,
                           'expr': txt, 'order': order2,
                           'idreuse_round': rd},
                          str(o2.root), 'the function of the text, ordered',
                          note=why or 'stale parse result')
        if rd % 64 == 0:
            LOG.sample({'id_reuse_round': rd, 'order': order,
                        'Y': 'BDDNode(%s, %s, %s)' % (top, L.root, H.root),
                        'Y2': 'same with children swapped, allocated right '
                              'after Y died'})
    _state['hist'] = 0


def pairs_exhaustive(ctx):
    """All ordered pairs of 3-variable functions built one after the other,
    in both orders, with the first dropped/kept: equal functions share roots
    whatever the creation order."""
    from pyModelChecking.BDD import OBDD
    V = ['a', 'b', 'c']
    n = 0
    for ta in range(256):
        if not ctx.mine(ta):
            continue
        for tb in range(0, 256, 1 if not ctx.quick else 16):
            order = list(itertools.permutations(V))[(ta + tb) % 6]
            A = OBDD(refbool.expr_of_tt(ta, V, ta % 3), list(order))
            B = OBDD(refbool.expr_of_tt(tb, V, 2 - tb % 3), list(order))
            C = OBDD(refbool.expr_of_tt(ta & tb, V, 0), list(order))
            D = A & B
            LOG.hit('c16.canon')
            if not (D == C and D.root is C.root):
                LOG.violation('c16.canon', PROP,
                              {'tt_A': ta, 'tt_B': tb, 'order': list(order)},
                              {'A&B': str(D), 'direct': str(C)},
                              'one shared root',
                              note='A & B and the directly built conjunction '
                                   'do not share a root')
            n += 1
        if ta % 32 == ctx.shard:
            census('pairs %d' % ta)


def run(ctx):
    attach()
    nh = 160 if ctx.quick else 2400
    steps = 300 if ctx.quick else 1500
    for h in range(nh):
        if ctx.mine(h):
            if h % 10 == 9:
                # long history: thousands of applications of each operator
                history(ctx, h, steps * 6, inject=(h % 4 != 3))
                LOG.sig['history:long'] += 1
            elif h % 10 == 4:
                history(ctx, h, steps * 2, inject=(h % 4 != 3), wide=True)
            else:
                history(ctx, h, steps, inject=(h % 4 != 3))
    pairs_exhaustive(ctx)
    id_reuse_rounds(ctx, 480 if ctx.quick else 12000)
    LOG.nontrivial_extra += LOG.counters.pop('nontrivial_new', 0)
    LOG.counters.pop('census_live_nodes_max', None)


def replay(ctx, rep):
    attach()
    c = rep['case']
    info = c.get('replay') or {}
    hid = info.get('history', c.get('history'))
    if c.get('idreuse_round') is not None:
        class _C(object):
            pass
        cc = _C()
        cc.seed = ctx.seed
        cc.quick = ctx.quick
        want = c['idreuse_round']
        cc.mine = lambda i: i == want
        id_reuse_rounds(cc, want + 1)
        return
    if hid is not None and not str(hid).startswith('idreuse'):
        steps = 300 if ctx.quick else 1500
        if hid % 10 == 9:
            history(ctx, hid, steps * 6, inject=(hid % 4 != 3))
        elif hid % 10 == 4:
            history(ctx, hid, steps * 2, inject=(hid % 4 != 3), wide=True)
        else:
            history(ctx, hid, steps, inject=(hid % 4 != 3))
    else:
        pairs_exhaustive(ctx)
