"""C11 -- formula equality, hashing and cloning are coherent.

Relation monitors over the real __eq__/__hash__/clone of formula objects,
judged against structural comparison of operator trees done by the harness:
 c11.eq      f == g  <=>  same tree (both argument orders, also !=)
 c11.hash    equal formulas have equal hashes and are one key in set / dict
 c11.laws    reflexive, symmetric, transitive on sampled triples
 c11.bool    Bool(b) == b and b == Bool(b) for Python booleans, and the
             mismatching combinations are unequal
 c11.clone   clone() is equal, tree-identical, of the same class, and shares
             no node object with the original
"""

import itertools

from .. import mon, gen, reflang
from ..mon import LOG
from ..neutral import (show, build, lang, tree_of, node_ids, rename_atoms,
                       height)

PROP = 'C11'
LANGS = ('PL', 'LTL', 'CTLS', 'CTL')

CONFIG = {
    'technique': ('runtime relation monitors on the real __eq__/__hash__/'
                  'clone, judged by harness-side structural tree comparison'),
    'level_text': ('All ordered pairs of formulas from a per-logic pool (all '
                   'formulas of depth <=1, a seeded sample of depth 2 and '
                   'near-miss variants: same printed skeleton, different '
                   'arity/nesting) are compared with ==, hashed, used as set '
                   'and dict keys, cloned; triples are checked for '
                   'transitivity.'),
    'level_note': ('Trusted base: neutral.tree_of / node_ids. Within one '
                   'logic; atom names are non-reserved identifiers.'),
    'deciding': ['c11.eq', 'c11.hash', 'c11.laws', 'c11.bool', 'c11.clone',
                 'c11.routes'],
    'shards': {'quick': 16, 'thorough': 16},
    'hashseeds': {'quick': 2, 'thorough': 4},
    'min_evals': {'quick': {'c11.eq': 300000, 'c11.hash': 20000,
                            'c11.clone': 4000, 'c11.laws': 10000,
                            'c11.bool': 100},
                  'thorough': {'c11.eq': 5000000}},
    'must_sig': ['eq:same_tree', 'eq:different_tree', 'pair:near_miss',
                 'logic:PL', 'logic:LTL', 'logic:CTLS', 'logic:CTL',
                 'clone:deep', 'routes:7', 'reinit'],
    'rule': ('cases = ordered pairs (f, g) of formula objects of one logic; '
             'pool per logic: all formulas of depth <=1 over {p,q,true,'
             'false}, a seeded sample of depth-2 formulas, near-miss '
             'variants (and/or of arity 2 vs 3 vs nested, U vs R, X vs F, '
             'atoms p vs pp), two independently built copies of each tree. '
             'non-trivial = the two trees are different but have the same '
             'multiset of leaves, or are equal trees in distinct objects; '
             'distinct by digest of (logic, tree f, tree g)'),
    'exhaustive': {'quick': False, 'thorough': False},
    'assumptions': ['formulas compared belong to the same logic module'],
}


def near_misses(logic):
    p, q, r_ = ('ap', 'p'), ('ap', 'q'), ('ap', 'pp')
    out = [
        ('and', p, q), ('and', q, p), ('and', p, q, p), ('and', ('and', p, q), p),
        ('and', p, ('and', q, p)), ('or', p, q), ('or', p, q, q),
        ('or', ('or', p, q), q), ('or', p, ('or', q, q)),
        ('imply', p, q), ('imply', q, p), ('not', ('and', p, q)),
        ('and', ('not', p), q), ('not', ('not', p)), p, r_,
        ('and', r_, q), ('bool', True), ('bool', False),
        ('not', ('bool', True)), ('not', ('bool', False)),
        ('imply', ('imply', p, q), p), ('imply', p, ('imply', q, p)),
    ]
    # atom names that a lossy comparison could identify: leading zeros,
    # case, trailing underscores, one name a prefix of the other
    alike = ['p1', 'p01', 'p001', 'P1', 'p1_', 'p_1', 'p10', 'p', 'pp', 'Pp']
    for nm in alike:
        a = ('ap', nm)
        out += [a, ('not', a), ('and', a, q), ('or', q, a),
                ('imply', a, a)]
    if logic in ('LTL', 'CTLS'):
        out += [('U', p, q), ('R', p, q), ('U', q, p), ('X', p), ('F', p),
                ('G', p), ('X', ('X', p)), ('U', ('U', p, q), p),
                ('U', p, ('U', q, p)), ('not', ('X', p)), ('X', ('not', p)),
                ('X', ('and', p, q)), ('and', ('X', p), q),
                ('A', ('U', p, q)), ('A', ('X', p))]
    if logic == 'CTLS':
        out += [('E', ('U', p, q)), ('A', ('A', p)), ('E', ('not', p)),
                ('not', ('E', p)), ('A', ('and', ('X', p), q)),
                ('and', ('A', ('X', p)), q)]
    if logic == 'CTL':
        out += [('A', ('U', p, q)), ('E', ('U', p, q)), ('A', ('R', p, q)),
                ('A', ('X', p)), ('A', ('F', p)), ('E', ('F', p)),
                ('A', ('X', ('and', p, q))), ('and', ('A', ('X', p)), q),
                ('not', ('E', ('X', p))), ('E', ('X', ('not', p))),
                ('A', ('U', ('A', ('U', p, q)), p)),
                ('A', ('U', p, ('A', ('U', q, p))))]
    return [t for t in out if reflang.in_language(t, logic)]


def leaves_multiset(t):
    if t[0] in ('ap', 'bool'):
        return (repr(t),)
    out = ()
    for c in t[1:]:
        out += leaves_multiset(c)
    return tuple(sorted(out))


def judge_pair(logic, f, tf, g, tg, deep_checks):
    same = tf == tg
    LOG.hit('c11.eq')
    LOG.sig['eq:same_tree' if same else 'eq:different_tree'] += 1
    try:
        e1 = (f == g)
        e2 = (g == f)
        n1 = (f != g)
    except Exception as e:
        LOG.violation('c11.eq', PROP, {'logic': logic, 'f': tf, 'g': tg},
                      'raised ' + mon.fmt_exc(e), same, note='== raised')
        return
    if e1 is not same or e2 is not same or n1 is same:
        LOG.violation('c11.eq', PROP,
                      {'logic': logic, 'f': tf, 'g': tg,
                       'shown': [show(tf), show(tg)]},
                      {'f==g': e1, 'g==f': e2, 'f!=g': n1}, same,
                      note='== disagrees with tree identity' if e1 == e2
                      else '== is not symmetric')
    if same or leaves_multiset(tf) == leaves_multiset(tg):
        LOG.mark_nontrivial((logic, tf, tg))
    if same and deep_checks:
        LOG.hit('c11.hash')
        try:
            ok = hash(f) == hash(g) and len({f, g}) == 1 and \
                {f: 1}.get(g) == 1 and g in {f} and f in [g]
        except Exception as e:
            ok = False
        if not ok:
            LOG.violation('c11.hash', PROP,
                          {'logic': logic, 'f': tf, 'g': tg},
                          {'hash_f': hash(f), 'hash_g': hash(g),
                           'set_len': len({f, g})}, 'one key',
                          note='equal formulas do not behave as one key')
    elif deep_checks:
        LOG.hit('c11.hash')
        try:
            ok = len({f, g}) == 2 and {f: 1}.get(g) is None
        except Exception:
            ok = False
        if not ok:
            LOG.violation('c11.hash', PROP,
                          {'logic': logic, 'f': tf, 'g': tg},
                          'merged in a set/dict', 'two keys',
                          note='different formulas collapse to one key')


def judge_clone(logic, f, tf):
    LOG.hit('c11.clone')
    case = {'logic': logic, 'f': tf, 'shown': show(tf)}
    try:
        c = f.clone()
        tc = tree_of(c)
    except Exception as e:
        LOG.violation('c11.clone', PROP, case, 'raised ' + mon.fmt_exc(e),
                      'a clone', note='clone raised')
        return
    bad = None
    if tc != tf:
        bad = 'clone has a different tree: ' + show(tc)
    elif not (c == f and f == c):
        bad = 'clone is not equal to the original'
    elif type(c) is not type(f):
        bad = 'clone is a %s, original a %s' % (type(c).__name__,
                                                type(f).__name__)
    elif set(node_ids(c)) & set(node_ids(f)):
        bad = 'clone shares node objects with the original'
    elif c._subformula is f._subformula if hasattr(f, '_subformula') and \
            type(f).__name__ not in ('AtomicProposition', 'Bool') else False:
        bad = 'clone shares the child list'
    elif tree_of(f) != tf:
        bad = 'original changed by clone()'
    if height(tf) >= 2:
        LOG.sig['clone:deep'] += 1
    if bad:
        LOG.violation('c11.clone', PROP, case, bad,
                      'equal, same class, node-disjoint', note=bad)
        return
    # mutating the clone's child list must not show in the original
    if hasattr(c, '_subformula') and type(c).__name__ not in (
            'AtomicProposition', 'Bool') and c._subformula:
        c._subformula.append(c._subformula[0])
        if tree_of(f) != tf:
            LOG.violation('c11.clone', PROP, case,
                          'original changed when the clone was mutated',
                          'independent', note='aliasing')


_parsers = {}


def routes(logic, t):
    """The same tree obtained through every construction route: constructors
    with wrapped / raw leaves, clone(), the parser, cast_to from and to a
    neighbouring language."""
    from .. import mcwork
    L = lang(logic)
    out = []
    for raw in (False, True):
        try:
            out.append(('build raw=%s' % raw, build(L, t, raw_leaves=raw)))
        except Exception:
            pass
    if not out:
        return out
    f = out[0][1]
    try:
        out.append(('clone', f.clone()))
        out.append(('clone of clone', f.clone().clone()))
    except Exception:
        pass
    try:
        if logic not in _parsers:
            _parsers[logic] = L.Parser()
        txt = mcwork.text_of('CTLS' if logic == 'CTL' else logic, t)
        out.append(('parser', _parsers[logic](txt)))
    except Exception:
        pass
    others = {'PL': ['CTLS', 'CTL', 'LTL'], 'CTL': ['CTLS'],
              'LTL': ['CTLS'], 'CTLS': ['CTL', 'LTL']}[logic]
    for o in others:
        try:
            g = build(lang(o), t)
            out.append(('cast from ' + o, g.cast_to(L)))
            out.append(('cast to %s and back' % o,
                        f.cast_to(lang(o)).cast_to(L)))
        except Exception:
            pass
    return out


def judge_routes(logic, t):
    rs = routes(logic, t)
    for i in range(len(rs)):
        for j in range(len(rs)):
            LOG.hit('c11.routes')
            (n1, a), (n2, b) = rs[i], rs[j]
            ok = False
            try:
                ok = (a == b) and (b == a) and not (a != b) and \
                    hash(a) == hash(b) and len({a, b}) == 1 and \
                    {a: 1}.get(b) == 1
            except Exception:
                ok = False
            if not ok:
                LOG.violation('c11.hash' if a == b else 'c11.eq', PROP,
                              {'logic': logic, 'f': t, 'shown': show(t),
                               'routes': [n1, n2]},
                              {'a==b': a == b, 'hash_equal':
                               hash(a) == hash(b)}, 'equal, one key',
                              note='the same tree built through two routes '
                                   '(%s / %s) is not one key' % (n1, n2))
    if len(rs) >= 4:
        LOG.sig['routes:%d' % min(len(rs), 8)] += 1


def judge_reinit(logic, t, t2):
    """A formula object that was hashed / used as a key and is then given
    other operands in place (re-initialised) must behave like a freshly built
    formula with its new tree."""
    L = lang(logic)
    try:
        f = build(L, t)
        fresh = build(L, t2)
        if type(f) is not type(fresh) or t[0] in ('ap', 'bool'):
            return
        d = {f: 'old'}
        hash(f)
        str(f)
        f == fresh
        kids = [c.clone() for c in fresh._subformula]
        f.__init__(*kids)                  # in-place: same object, new tree
    except Exception:
        return
    LOG.hit('c11.reinit')
    LOG.sig['reinit'] += 1
    if tree_of(f) != t2:
        return
    ok = False
    try:
        ok = (f == fresh) and (fresh == f) and hash(f) == hash(fresh) and \
            len({f, fresh}) == 1 and {fresh: 1}.get(f) == 1 and \
            (f == f.clone()) and hash(f) == hash(f.clone())
    except Exception:
        ok = False
    if not ok:
        LOG.violation('c11.hash', PROP,
                      {'logic': logic, 'f': t2, 'was': t, 'shown': show(t2)},
                      {'==': f == fresh, 'hash_equal': hash(f) == hash(fresh)},
                      'equal and one key',
                      note='a formula whose operands were replaced in place '
                           'is equal to a fresh formula of the same tree but '
                           'does not hash like it')


def bool_checks(logic):
    L = lang(logic)
    for b in (True, False):
        LOG.hit('c11.bool')
        B = L.Bool(b)
        res = {'Bool(b)==b': B == b, 'b==Bool(b)': b == B,
               'Bool(b)==not b': B == (not b), '(not b)==Bool(b)': (not b) == B,
               'Bool(b)==Bool(b)': B == L.Bool(b),
               'Bool(b)==Bool(not b)': B == L.Bool(not b),
               'hash': hash(B) == hash(L.Bool(b)),
               'Bool!=b': B != b}
        exp = {'Bool(b)==b': True, 'b==Bool(b)': True,
               'Bool(b)==not b': False, '(not b)==Bool(b)': False,
               'Bool(b)==Bool(b)': True, 'Bool(b)==Bool(not b)': False,
               'hash': True, 'Bool!=b': False}
        if res != exp:
            LOG.violation('c11.bool', PROP, {'logic': logic, 'b': b},
                          res, exp, note='Bool vs Python bool')
        # an atom is never equal to a Bool, in either direction
        a = L.AtomicProposition('p')
        if (a == B) or (B == a) or not (a != B):
            LOG.violation('c11.bool', PROP, {'logic': logic, 'b': b},
                          {'a==B': a == B, 'B==a': B == a}, False,
                          note='atom equals Bool')


def run(ctx):
    r = gen.rng(ctx.seed, PROP, 'main')
    for li, logic in enumerate(LANGS):
        L = lang(logic)
        LOG.sig['logic:' + logic] += 1
        d1 = gen.enum_lang(logic, 1)
        d2 = gen.enum_lang(logic, 2, cap=3000,
                           r=gen.rng(ctx.seed, PROP, logic))[len(d1):]
        nm = near_misses(logic)
        k = 500 if ctx.quick else 2500
        pool_t = d1 + nm + gen.rng(ctx.seed, PROP, logic + '2').sample(
            d2, min(k, len(d2)))
        pool_t += [gen.random_lang(r, logic, 4) for _ in range(60)]
        pool_t += [gen.random_lang(r, logic, 5, atoms=at) for at in
                   (('p1', 'p01', 'P1'), ('ab', 'a', 'abc'), ('x_', 'x__', 'x'))
                   for _ in range(12)]
        LOG.sig['pair:near_miss'] += len(nm)
        objs = []
        for i, t in enumerate(pool_t):
            try:
                objs.append((build(L, t, raw_leaves=(i % 2 == 0)), t))
            except Exception:
                LOG.counters['c11.unbuildable'] += 1
        copies = []
        for f, t in objs:
            copies.append((build(L, t), t))       # independent second object
        n = len(objs)
        pi = 0
        for a in range(n):
            if not ctx.mine(a):
                continue
            f, tf = objs[a]
            judge_clone(logic, f, tf)
            judge_clone(logic, copies[a][0], tf)
            if a % 2 == 0:
                judge_routes(logic, tf)
            if a % 3 == 0 and tf[0] not in ('ap', 'bool'):
                # another tree with the same root operator and arity
                for b in range(a + 1, min(n, a + 40)):
                    tb = objs[b][1]
                    if tb[0] == tf[0] and len(tb) == len(tf) and tb != tf:
                        judge_reinit(logic, tf, tb)
                        break
            judge_pair(logic, f, tf, copies[a][0], copies[a][1], True)
            judge_pair(logic, f, tf, f, tf, True)          # reflexive
            for b in range(n):
                g, tg = objs[b] if (a + b) % 2 else copies[b]
                judge_pair(logic, f, tf, g, tg, (a + b) % 13 == 0)
            # transitivity / symmetry on sampled triples
            rr = gen.rng(ctx.seed, PROP, (logic, a))
            for _ in range(40):
                LOG.hit('c11.laws')
                b, c = rr.randrange(n), rr.randrange(n)
                if rr.random() < 0.5:
                    b = a
                x, y, z = f, copies[b][0], objs[c][0]
                if (x == y) and (y == z) and not (x == z):
                    LOG.violation('c11.laws', PROP,
                                  {'logic': logic, 'f': tf,
                                   'g': copies[b][1], 'h': objs[c][1]},
                                  'x==y, y==z, x!=z', 'transitive',
                                  note='== is not transitive')
                if (x == z) != (z == x):
                    LOG.violation('c11.laws', PROP,
                                  {'logic': logic, 'f': tf, 'h': objs[c][1]},
                                  'x==z differs from z==x', 'symmetric',
                                  note='== is not symmetric')
        if ctx.mine(li):
            bool_checks(logic)
        if ctx.shard == 0:
            LOG.sample({'logic': logic, 'pool_size': n,
                        'example_pair': [show(pool_t[5]), show(pool_t[-1])]})
    if ctx.shard >= 4:
        for logic in LANGS:
            bool_checks(logic)


def replay(ctx, rep):
    from ..mcwork import to_tuple
    c = rep['case']
    logic = c['logic']
    L = lang(logic)
    if 'b' in c:
        bool_checks(logic)
        return
    tf = to_tuple(c['f'])
    for raw_f in (False, True):
        f = build(L, tf, raw_leaves=raw_f)
        judge_clone(logic, f, tf)
        judge_routes(logic, tf)
        judge_pair(logic, f, tf, f.clone(), tf, True)
        for key in ('g', 'h'):
            if key in c:
                tg = to_tuple(c[key])
                for raw_g in (False, True):
                    judge_pair(logic, f, tf, build(L, tg, raw_leaves=raw_g),
                               tg, True)
