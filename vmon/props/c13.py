"""C13 -- reachability, reversal, subgraph extraction and clone are exact and
non-destructive.

Deciding monitors c13.<method>: post-conditions rebound over the real DiGraph
methods (so calls made from inside the model checkers are judged too), each
with a before/after deep snapshot of the receiver.
"""

import itertools

from .. import mon, refgraph, gen, probes, graphwork
from ..mon import LOG
from ..neutral import graph_rows

PROP = 'C13'
METHODS = ('get_reachable_set_from', 'get_reversed_graph', 'get_subgraph',
           'clone')

CONFIG = {
    'technique': ('runtime monitor: post-conditions (with before/after '
                  'snapshots of the receiver) wrapped over the real DiGraph '
                  'methods, judged against a bit-row graph reference'),
    'level_text': ('Every call of get_reachable_set_from / get_reversed_graph '
                   '/ get_subgraph / clone observed (driven directly on all '
                   'digraphs with <=4 nodes x all node subsets, random graphs '
                   'to 12 nodes, and indirectly by the model checkers) is '
                   'judged for exactness and for leaving the receiver '
                   'unchanged; results are also mutated to show independence.'
                   ' Also: chains of operations on derived graphs, changes to the'
                   ' graph between operations, node sets as'
                   ' list/set/frozenset/tuple/dict view/generator, results'
                   ' extended through the public API while the graph is watched.'),
    'level_note': ('Trusted base: vmon/refgraph.py; snapshots read '
                   'DiGraph._next. X is a subset of the nodes for '
                   'reachability (the property quantifies over node sets).'),
    'deciding': ['c13.get_reachable_set_from', 'c13.get_reversed_graph',
                 'c13.get_subgraph', 'c13.clone'],
    'shards': {'quick': 16, 'thorough': 16},
    'hashseeds': {'quick': 2, 'thorough': 4},
    'min_evals': {'quick': {'c13.get_reachable_set_from': 50000,
                            'c13.get_reversed_graph': 20000,
                            'c13.get_subgraph': 50000, 'c13.clone': 20000},
                  'thorough': {'c13.get_reachable_set_from': 500000}},
    'must_sig': ['site:get_subgraph:pyModelChecking.CTL.model_checking:*',
                 'site:get_reachable_set_from:pyModelChecking.kripke:*',
                 'subgraph:dropped_edges', 'subgraph:foreign_nodes',
                 'reach:proper', 'chain:ops', 'chain:mutate_between_ops'],
    'rule': ('cases = (digraph, node subset X, method); enumerated: every '
             'labelled digraph on <=3 nodes x every subset, every 4-node '
             'digraph x a rotating sample (quick) / all 16 (thorough) '
             'subsets; random digraphs to 12 nodes x random subsets; plus '
             'the calls the model checkers make. non-trivial = the result '
             'is neither empty nor the whole graph / X is a proper non-empty '
             'subset that is not closed under successors; distinct = '
             'distinct (rows, naming, X, method) by digest'),
    'exhaustive': {'quick': False, 'thorough': True},
    'exhaustive_note': 'thorough: all digraphs with <=4 nodes x all subsets',
    'assumptions': ['node sets passed to get_reachable_set_from are subsets '
                    'of the nodes'],
}


def _snap(G):
    return ([(k, frozenset(v)) for k, v in G._next.items()],
            {k: id(v) for k, v in G._next.items()})


def _rows_of(G):
    nodes, rows = graph_rows(G)
    return nodes, rows


def _graph_eq(G, nodes, rows, what):
    """Does real graph G have exactly `nodes` (list) and rows (over nodes)."""
    if set(G._next.keys()) != set(nodes) or len(G._next) != len(nodes):
        return 'node set of %s differs' % what
    for i, v in enumerate(nodes):
        exp = set(nodes[j] for j in range(len(nodes)) if rows[i] >> j & 1)
        if set(G._next[v]) != exp:
            return 'successors of %r in %s are %r, expected %r' % (
                v, what, sorted(map(repr, G._next[v])),
                sorted(map(repr, exp)))
    return None


def _case(nodes, rows, extra=None):
    c = {'nodes': [repr(v) for v in nodes], 'rows': list(rows)}
    if extra:
        c.update(extra)
    return c


def _wrap_reach(orig):
    def get_reachable_set_from(self, nodes):
        site = mon.caller_site(2)
        # the real function must receive the caller's own argument object
        # (its behaviour may depend on the container type).  A one-shot
        # iterator is split with itertools.tee: the real function still gets
        # a one-shot iterator, the monitor reads the other branch.
        oneshot = hasattr(nodes, '__next__')
        if oneshot:
            # documented as "a container of nodes": a one-shot iterator is
            # outside the property's domain (the code reads it twice)
            LOG.counters['c13.reach_oneshot_out_of_domain'] += 1
            return orig(self, nodes)
        try:
            if oneshot:
                nodes, mine = itertools.tee(nodes)
                X = list(mine)
            else:
                X = list(nodes)
            V, rows = _rows_of(self)
            idx = {v: i for i, v in enumerate(V)}
            before = _snap(self)
        except Exception:
            return orig(self, nodes)
        try:
            res = orig(self, nodes)
        except Exception as e:
            if all(x in idx for x in X):
                LOG.hit('c13.get_reachable_set_from', site)
                LOG.violation('c13.get_reachable_set_from', PROP,
                              _case(V, rows, {'X': [repr(x) for x in X]}),
                              'raised ' + mon.fmt_exc(e), 'a set',
                              note='exception on a node subset')
            raise
        if not all(x in idx for x in X):
            LOG.counters['c13.reach_out_of_domain'] += 1
            return res
        LOG.hit('c13.get_reachable_set_from', site)
        LOG.sig['site:get_reachable_set_from:' + site] += 1
        xm = 0
        for x in X:
            xm |= 1 << idx[x]
        exp = refgraph.reachable_from(rows, xm)
        bad = None
        om = 0
        try:
            for v in res:
                if v not in idx:
                    bad = 'result contains non-node %r' % (v,)
                else:
                    om |= 1 << idx[v]
        except Exception as e:
            bad = 'result not iterable'
        if not bad and not isinstance(res, (set, frozenset)):
            bad = 'result is %s, not a set' % type(res).__name__
        if not bad and om != exp:
            bad = 'reachable set differs'
        if not bad and _snap(self) != before:
            bad = 'receiver changed'
        try:
            if not oneshot and list(nodes) != X and set(nodes) != set(X):
                LOG.violation('c13.argument', PROP + '-diag',
                              _case(V, rows, {'X': [repr(x) for x in X]}),
                              sorted(map(repr, nodes)),
                              sorted(map(repr, X)),
                              note='the node collection passed by the caller '
                                   'was modified')
        except Exception:
            pass
        if xm and exp != (1 << len(V)) - 1 and exp != xm:
            LOG.sig['reach:proper'] += 1
            LOG.mark_nontrivial(('reach', tuple(rows),
                                 tuple(map(repr, V)), xm))
        if bad:
            LOG.violation('c13.get_reachable_set_from', PROP,
                          _case(V, rows, {'X': [repr(x) for x in X],
                                          'site': site}),
                          sorted(repr(V[i]) for i in range(len(V))
                                 if om >> i & 1),
                          sorted(repr(V[i]) for i in range(len(V))
                                 if exp >> i & 1), note=bad)
        return res
    return get_reachable_set_from


def _wrap_reversed(orig):
    def get_reversed_graph(self):
        site = mon.caller_site(2)
        try:
            V, rows = _rows_of(self)
            before = _snap(self)
        except Exception:
            return orig(self)
        res = orig(self)
        LOG.hit('c13.get_reversed_graph', site)
        LOG.sig['site:get_reversed_graph:' + site] += 1
        bad = None
        try:
            bad = _graph_eq(res, V, refgraph.reversed_rows(rows), 'result')
        except Exception as e:
            bad = 'result unreadable: ' + mon.fmt_exc(e)
        if not bad and _snap(self) != before:
            bad = 'receiver changed'
        if any(rows) and refgraph.reversed_rows(rows) != list(rows):
            LOG.mark_nontrivial(('rev', tuple(rows), tuple(map(repr, V))))
        if bad:
            LOG.violation('c13.get_reversed_graph', PROP,
                          _case(V, rows, {'site': site}),
                          repr(getattr(res, '_next', res))[:400],
                          'same nodes, flipped edges', note=bad)
        return res
    return get_reversed_graph


def _wrap_subgraph(orig):
    def get_subgraph(self, nodes):
        site = mon.caller_site(2)
        try:
            if hasattr(nodes, '__next__'):
                nodes, mine = itertools.tee(nodes)
                X = list(mine)
            else:
                X = list(nodes)
            V, rows = _rows_of(self)
            idx = {v: i for i, v in enumerate(V)}
            before = _snap(self)
        except Exception:
            return orig(self, nodes)
        res = orig(self, nodes)
        LOG.hit('c13.get_subgraph', site)
        LOG.sig['site:get_subgraph:' + site] += 1
        xm = 0
        foreign = False
        for x in X:
            if x in idx:
                xm |= 1 << idx[x]
            else:
                foreign = True
        if foreign:
            LOG.sig['subgraph:foreign_nodes'] += 1
        keep = [i for i in range(len(V)) if xm >> i & 1]
        sub_nodes = [V[i] for i in keep]
        sub_rows = []
        dropped = False
        for i in keep:
            m = 0
            for k, j in enumerate(keep):
                if rows[i] >> j & 1:
                    m |= 1 << k
            if rows[i] & ~xm:
                dropped = True
            sub_rows.append(m)
        if dropped:
            LOG.sig['subgraph:dropped_edges'] += 1
        bad = None
        try:
            bad = _graph_eq(res, sub_nodes, sub_rows, 'result')
        except Exception as e:
            bad = 'result unreadable: ' + mon.fmt_exc(e)
        if not bad and _snap(self) != before:
            bad = 'receiver changed'
        if dropped and any(sub_rows):
            LOG.mark_nontrivial(('sub', tuple(rows), tuple(map(repr, V)), xm))
        if bad:
            LOG.violation('c13.get_subgraph', PROP,
                          _case(V, rows, {'X': [repr(x) for x in X],
                                          'site': site}),
                          repr(getattr(res, '_next', res))[:400],
                          {'nodes': [repr(v) for v in sub_nodes],
                           'rows': sub_rows}, note=bad)
        return res
    return get_subgraph


def _wrap_clone(orig):
    def clone(self):
        site = mon.caller_site(2)
        try:
            V, rows = _rows_of(self)
            before = _snap(self)
        except Exception:
            return orig(self)
        res = orig(self)
        LOG.hit('c13.clone', site)
        bad = None
        try:
            bad = _graph_eq(res, V, rows, 'clone')
            if not bad and res is self:
                bad = 'clone returned the receiver'
            if not bad and res._next is self._next:
                bad = 'clone shares the adjacency dict'
            if not bad and any(res._next[v] is self._next[v] for v in V):
                bad = 'clone shares a successor set with the receiver'
        except Exception as e:
            bad = 'result unreadable: ' + mon.fmt_exc(e)
        if not bad and _snap(self) != before:
            bad = 'receiver changed'
        if len(V) >= 2 and any(rows):
            LOG.mark_nontrivial(('clone', tuple(rows), tuple(map(repr, V))))
        if bad:
            LOG.violation('c13.clone', PROP, _case(V, rows, {'site': site}),
                          repr(getattr(res, '_next', res))[:400],
                          'an equal, independent graph', note=bad)
        return res
    return clone


def attach():
    def do():
        from pyModelChecking.graph import DiGraph
        import pyModelChecking.CTL
        import pyModelChecking.LTL
        import pyModelChecking.CTLS
        wrappers = {'get_reachable_set_from': _wrap_reach,
                    'get_reversed_graph': _wrap_reversed,
                    'get_subgraph': _wrap_subgraph, 'clone': _wrap_clone}
        watch = []
        for name, w in wrappers.items():
            orig = DiGraph.__dict__[name]
            watch.append((name, orig))
            new = w(orig)
            new.__name__ = name
            setattr(DiGraph, name, new)
        probes.watch(watch)
        return True
    return mon.attach_once('c13', do)


def independence(G, names, rows):
    """Mutate results; the receiver must not follow (and vice versa)."""
    before = _snap(G)[0]
    results = [('clone', G.clone()),
               ('get_reversed_graph', G.get_reversed_graph()),
               ('get_subgraph', G.get_subgraph(list(names)))]
    rs = G.get_reachable_set_from(names[:1])
    LOG.hit('c13.independence')
    # use the results the way a caller would -- through the public API -- and
    # watch the original: "none of these change G" must survive ordinary use
    # of what they returned
    for what, H in results:
        try:
            H.add_node('__vmon_new__')
            for v in list(H.nodes()):
                if v != '__vmon_new__':
                    try:
                        H.add_edge(v, '__vmon_new__')
                    except RuntimeError:
                        pass
        except Exception:
            continue
        if _snap(G)[0] != before:
            LOG.violation('c13.' + what, PROP,
                          _case(names, rows, {'operation': what}),
                          'the graph changed when the result of %s was '
                          'extended through add_node/add_edge' % what,
                          'a result independent of the graph',
                          note='result of %s shares structure with the '
                               'graph' % what)
            before = _snap(G)[0]
    try:
        rs.add('__vmon_probe__')
    except Exception:
        pass
    if _snap(G)[0] != before:
        LOG.violation('c13.get_reachable_set_from', PROP,
                      _case(names, rows),
                      'the graph changed when the returned set was extended',
                      'a set independent of the graph',
                      note='reachable set shares structure with the graph')
    # double reversal
    rr = G.get_reversed_graph().get_reversed_graph()
    LOG.hit('c13.double_reversal')
    bad = _graph_eq(rr, names, rows, 'double reversal')
    if bad:
        LOG.violation('c13.get_reversed_graph', PROP, _case(names, rows),
                      repr(rr._next)[:300], 'the original graph',
                      note='reversing twice: ' + bad)


def drive(rows, order, namer, style, subsets, foreign=False):
    G, names = graphwork.make_digraph(rows, order, namer, None, style)
    n = len(rows)
    try:
        for xm in subsets:
            X = [names[i] for i in range(n) if xm >> i & 1]
            kind = (xm + len(rows[0:1]) + n) % 5
            G.get_reachable_set_from(
                [X, set(X), frozenset(X), tuple(X),
                 dict.fromkeys(X).keys()][kind])
            Y = list(X)
            if foreign:
                Y.append('__not_a_node__')
            G.get_subgraph(
                [Y, set(Y), frozenset(Y), dict.fromkeys(Y).keys(),
                 (y for y in Y)][(kind + 1) % 5])
        G.get_reversed_graph()
        G.clone()
        if n >= 2:
            # chains of operations on derived graphs (each call is judged on
            # the graph it is made on)
            xm = subsets[0] if subsets else 1
            X = [names[i] for i in range(n) if xm >> i & 1] or names[:1]
            R = G.get_reversed_graph()
            S = R.get_subgraph(X + names[-1:])
            S.get_reachable_set_from([x for x in X if x in S.nodes()])
            RR = S.get_reversed_graph().get_reversed_graph()
            RR.get_subgraph(set(X)).clone().get_reachable_set_from(
                [x for x in X[:1] if x in RR.nodes()])
            G.get_reachable_set_from(X)
            LOG.sig['chain:ops'] += 1
        if n:
            independence(G, names, rows)
        if n >= 2:
            # the graph itself changes between operations (add_edge from a
            # brand-new source, add_node, new edges between old nodes): every
            # later operation is judged on the graph as it then is
            LOG.sig['chain:mutate_between_ops'] += 1
            G.get_subgraph(names[:2])
            G.add_edge('__new_src__', names[0])
            G.get_subgraph(['__new_src__'] + names[:2])
            G.get_reachable_set_from(['__new_src__'])
            G.get_reversed_graph()
            G.add_node('__iso__')
            G.get_subgraph(['__iso__', '__new_src__', names[-1]])
            try:
                G.add_edge(names[-1], names[0])
            except RuntimeError:
                pass
            G.get_reachable_set_from([names[-1]])
            G.clone().get_subgraph(['__new_src__', names[0]])
            G.get_reversed_graph().get_reachable_set_from([names[0]])
    except Exception as e:
        LOG.violation('c13.get_subgraph', PROP,
                      {'rows': list(rows), 'order': list(order),
                       'namer': namer, 'style': style},
                      'raised ' + mon.fmt_exc(e), 'no exception',
                      note='exception from a graph operation',
                      extra={'tb': mon.short_tb(e)})


def internal_uses(ctx, r):
    from pyModelChecking import CTL, LTL
    from .. import mcwork
    for i in range(300 if ctx.quick else 5000):
        nk = gen.random_structure(r, 5)
        if not ctx.mine(i):
            continue
        K = mcwork.kripke_of(nk)
        try:
            CTL.modelcheck(K, mcwork.formula_arg(
                'CTL', gen.random_ctl(r, 3), 'obj'))
            CTL.modelcheck(K, mcwork.formula_arg(
                'CTL', ('E', ('U', gen.random_ctl(r, 1),
                              gen.random_ctl(r, 1))), 'obj'))
            g = gen.random_ltl_path(r, 2, max_temporal=2)
            LTL.modelcheck(K, mcwork.formula_arg('LTL', ('A', g), 'obj'))
            K.get_fair_states([set(K.states())])
        except Exception:
            LOG.counters['internal_use_raised'] += 1


def run(ctx):
    attach()
    r = gen.rng(ctx.seed, PROP, 'main')
    namers = ['int', 'str', 'tuple']
    i = 0
    for n in (0, 1, 2, 3):
        subsets = list(range(1 << n))
        for rows in gen.all_digraphs(n):
            if ctx.mine(i):
                order = list(range(n))
                r2 = gen.rng(ctx.seed, PROP, i)
                r2.shuffle(order)
                drive(rows, order, namers[i % 3], i % 3, subsets,
                      foreign=(i % 5 == 0))
            i += 1
    gi = 0
    for rows in gen.all_digraphs(4):
        if ctx.mine(gi):
            if ctx.quick:
                subsets = [(gi >> 4) % 16, (gi * 5 + 3) % 16]
            else:
                subsets = list(range(16))
            order = [(gi + k) % 4 for k in range(4)]
            drive(rows, order, namers[gi % 3], gi % 3, subsets,
                  foreign=(gi % 7 == 0))
        gi += 1
    LOG.sample({'rows': [6, 4, 1, 0], 'X': [0, 2],
                'meaning': 'rows[i] = successor bit mask of node i; every '
                           'method called with subset X'})
    nrand = 3000 if ctx.quick else 100000
    for k in range(nrand):
        rows = gen.random_digraph(r, 12)
        n = len(rows)
        order = list(range(n))
        r.shuffle(order)
        subsets = [r.randrange(1 << n) for _ in range(3)]
        nmr = r.choice(namers + ['longstr', 'frozenset', 'mixed'])
        st = r.randrange(3)
        if ctx.mine(k):
            drive(rows, order, nmr, st, subsets, foreign=(k % 4 == 0))
            if k % 1500 == 0:
                LOG.sample({'rows': list(rows), 'order': order, 'namer': nmr,
                            'X_masks': subsets})
    internal_uses(ctx, r)
    ctx.extra['reach'] = probes.result()


def finalize(reports, ctx):
    merged = probes.merge([r['extra'].get('reach', {}) for r in reports])
    return {'coverage': {'reach': {k: {'lines': v['lines'], 'hit': v['hit'],
                                       'never_reached': v['never_reached']}
                                   for k, v in merged.items()}}}


def replay(ctx, rep):
    attach()
    c = rep['case']
    rows = c['rows']
    n = len(rows)
    drive(rows, c.get('order', list(range(n))), c.get('namer', 'int'),
          c.get('style', 0), list(range(1 << n)) if n <= 4 else [1, 3, 7],
          foreign=True)
