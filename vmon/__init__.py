"""vmon: runtime monitors for pyModelChecking (see /verif/DESIGN.md)."""
