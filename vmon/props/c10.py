"""C10 -- parsers reject text outside their language with a positioned
ParserError.

Deciding monitor c10.parse: a contract wrapped over the real Parser.__call__
(so it fires for the four logics' parsers alike, and for the parses the model
checkers do on text input).  For every call the outcome must be either
  * a formula whose nodes all live in that logic's module and whose operator
    tree is a formula of that logic (reflang), and -- when the workload
    supplied the token sequence -- whose token sequence is derivable in the
    hand-transcribed documented grammar (refgrammar); or
  * pyModelChecking.parser.UnexpectedToken / UnexpectedCharacters with
    0 <= pos <= len(input);
anything else (another exception type, a formula of another logic, an accepted
underivable string) is a violation.  Derivable-but-rejected is only counted.
"""

import sys

from .. import mon, gen, reflang, refgrammar
from ..mon import LOG
from ..neutral import show, lang, tree_of, module_set, NeutralError

PROP = 'C10'
LANGS = ('PL', 'LTL', 'CTLS', 'CTL')

CONFIG = {
    'technique': ('runtime contract on the real Parser.__call__ (outcome '
                  'type, position, logic membership of the result) combined '
                  'with an independent span-parsing recogniser of the '
                  'documented grammars'),
    'level_text': ('Every parse observed -- valid sentences of each grammar '
                   'fed to all four parsers, single-token delete/insert/swap/'
                   'replace mutants of them, random token sequences, hostile '
                   'strings -- must end in a formula of exactly that logic or '
                   'in a positioned ParserError; acceptance is compared with '
                   'an independent recogniser.'),
    'level_note': ('Trusted base: vmon/refgrammar.py (grammars transcribed by '
                   'hand from the documentation), vmon/reflang.py. Only the '
                   'direction "accepted => in the language" is enforced.'),
    'deciding': ['c10.parse'],
    'shards': {'quick': 16, 'thorough': 16},
    'hashseeds': {'quick': 2, 'thorough': 2},
    'min_evals': {'quick': {'c10.parse': 200000},
                  'thorough': {'c10.parse': 1000000}},
    'must_sig': ['outcome:accepted', 'outcome:UnexpectedToken',
                 'outcome:UnexpectedCharacters', 'cross:valid_elsewhere',
                 'mut:delete', 'mut:insert', 'mut:swap', 'mut:replace',
                 'kind:random', 'kind:hostile', 'parser:PL', 'parser:LTL',
                 'parser:CTLS', 'parser:CTL'],
    'rule': ('cases = (parser, input string); inputs: random derivations of '
             'each of the four grammars (depth <=5, <=40 tokens, operator '
             'synonyms ~ | &, varied white space) each fed to all four '
             'parsers; every single-token delete / insert / adjacent-swap / '
             'replace mutant sampled from them; random token sequences of '
             'length <=12; hostile strings (reserved words as atoms, '
             'unterminated quotes, non-ASCII, empty, very long not-chains). '
             'non-trivial = the string is accepted by at least one and '
             'rejected by at least one of the four grammars (per the '
             'recogniser) or is a mutant; distinct by digest of (parser, '
             'string)'),
    'exhaustive': {'quick': False, 'thorough': False},
    'assumptions': ['atoms in generated token sequences are non-reserved '
                    'identifiers, so tokenisation is unambiguous'],
}

_expect = {}        # (logic, string) -> token list supplied by the workload


def _logic_of_parser(p):
    m = type(p).__module__
    parts = m.split('.')
    return parts[1] if len(parts) >= 3 else None


def _wrap_call(orig, bp):
    def __call__(self, string):
        logic = _logic_of_parser(self)
        err = None
        out = None
        try:
            out = orig(self, string)
        except BaseException as e:
            err = e
        if logic in LANGS:
            judge(bp, logic, string, out, err)
        if err is not None:
            raise err
        return out
    return __call__


def judge(bp, logic, string, out, err):
    LOG.hit('c10.parse')
    LOG.sig['parser:' + logic] += 1
    case = {'parser': logic, 'input': string if isinstance(string, str)
            else repr(string)}
    toks = _expect.get((logic, string))
    der = None
    if toks is not None:
        der = refgrammar.derivable(logic, refgrammar.token_types(logic, toks))
    if err is not None:
        if isinstance(err, (bp.UnexpectedToken, bp.UnexpectedCharacters)):
            LOG.sig['outcome:' + type(err).__name__] += 1
            pos = getattr(err, 'pos', None)
            if not isinstance(pos, int) or isinstance(pos, bool) or \
                    not (0 <= pos <= len(string)):
                LOG.violation('c10.parse', PROP, case, 'pos=%r' % (pos,),
                              '0 <= pos <= %d' % len(string),
                              note='error position outside the input')
            if der:
                LOG.counters['c10.derivable_but_rejected'] += 1
                if LOG.counters['c10.derivable_but_rejected'] <= 3:
                    LOG.notes.append('derivable but rejected by %s: %r'
                                     % (logic, string))
        else:
            LOG.violation('c10.parse', PROP, case,
                          'raised ' + mon.fmt_exc(err),
                          'a formula or UnexpectedToken/UnexpectedCharacters',
                          note='wrong exception type',
                          extra={'tb': mon.short_tb(err)})
        return
    LOG.sig['outcome:accepted'] += 1
    try:
        t = tree_of(out)
    except NeutralError:
        LOG.violation('c10.parse', PROP, case, repr(out)[:200], 'a formula',
                      note='parser returned a non-formula')
        return
    if not reflang.well_formed(t) or not reflang.in_language(t, logic):
        LOG.violation('c10.parse', PROP, case, show(t),
                      'a %s formula' % logic,
                      note='accepted text denotes a formula outside the logic')
    mods = module_set(out)
    want = 'pyModelChecking.%s.language' % logic
    if mods != {want}:
        LOG.violation('c10.parse', PROP, case, sorted(mods), [want],
                      note='returned formula has nodes of another logic')
    if der is False:
        LOG.violation('c10.parse', PROP, case, 'accepted: ' + show(t),
                      'rejection (not derivable in the documented grammar)',
                      note='accepted a string outside the documented grammar',
                      extra={'tokens': list(toks)})


def attach():
    def do():
        import pyModelChecking.CTL
        import pyModelChecking.LTL
        import pyModelChecking.CTLS
        import pyModelChecking.PL
        import pyModelChecking.parser as bp
        orig = bp.Parser.__dict__['__call__']
        bp.Parser.__call__ = _wrap_call(orig, bp)
        return True
    return mon.attach_once('c10', do)


_parsers = {}


def feed(logic, s, toks=None):
    if logic not in _parsers:
        _parsers[logic] = lang(logic).Parser()
    if toks is not None:
        _expect[(logic, s)] = tuple(toks)
    try:
        _parsers[logic](s)
    except Exception:
        pass
    _expect.pop((logic, s), None)


ALL_TOKENS = ['true', 'false', '(', ')', 'not', 'or', 'and', '-->', 'A', 'E',
              'X', 'F', 'G', 'U', 'R', 'p', 'q', 'zeta', '~', '|', '&',
              '"quoted atom"', '"U"']


def mutants(r, toks, k):
    out = []
    n = len(toks)
    for _ in range(k):
        kind = r.choice(['delete', 'insert', 'swap', 'replace'])
        t = list(toks)
        if kind == 'delete' and n > 1:
            del t[r.randrange(n)]
        elif kind == 'insert':
            t.insert(r.randrange(n + 1), r.choice(ALL_TOKENS))
        elif kind == 'swap' and n > 1:
            i = r.randrange(n - 1)
            t[i], t[i + 1] = t[i + 1], t[i]
        else:
            kind = 'replace'
            t[r.randrange(n)] = r.choice(ALL_TOKENS)
        out.append((kind, t))
    return out


HOSTILE = [
    '', ' ', '(', ')', '()', 'A', 'E', 'not', 'true false', 'p q',
    'A F G q', 'E F p', 'E G p', 'A X A', 'p U', 'U p', 'p U q U r',
    'p and q or r', 'p --> q --> r', '"unterminated', '"quoted atom"',
    '"a" and "b"', 'p && q', 'p || q', '!p', 'p -> q', 'p <-> q', 'é',
    'p ∧ q', '\x00', 'p\x00q', '1', '1p', 'p.q', 'p,q', 'A(p U q',
    'A(p U q))', '((((p))))', '(p))', 'not not not p', 'A[p U q]',
    'AG p', 'AF p', 'EX p', 'A G p', 'A (G p)', 'A(G(p))', 'E(p R q)',
    'true', 'false', 'True', 'X', 'X X', 'F', 'G G p', '~~p', '~ ~ p',
    'p & q & r', 'p | q | r', 'p & q | r', 'A p', 'A(p)', 'E(p and q)',
    'A(F(p) and G(q))', 'A((p U q) or X r)', 'p U (q R r)', '(p U q) R r',
    'not (p U q)', 'not p U q', 'A not p', 'A not X p', '\tp\n', 'p;',
    'A(F p) --> E(G q)', '"p q" and r', "'p'", 'p # comment', '--> p',
    'p -->', '-- > p', 'p - -> q', '"\\users\\bob"', '"a\\b" and p',
    '"\\x"', '"\\N{dash}" or q', 'A X "tab\\t"', '"caf\u00e9"',
]


def run(ctx):
    attach()
    r = gen.rng(ctx.seed, PROP, 'main')
    nsent = 8000 if ctx.quick else 60000
    i = 0
    for k in range(nsent):
        src = LANGS[k % 4]
        toks = refgrammar.random_sentence(r, src, depth=r.randint(2, 5))
        s = refgrammar.render(r, toks)
        muts = mutants(r, toks, 4)
        if not ctx.mine(k):
            continue
        verdicts = []
        for dst in LANGS:
            feed(dst, s, toks)
            verdicts.append(refgrammar.derivable(
                dst, refgrammar.token_types(dst, toks)))
        if any(verdicts) and not all(verdicts):
            LOG.sig['cross:valid_elsewhere'] += 1
            LOG.mark_nontrivial((s,))
        for kind, mt in muts:
            LOG.sig['mut:' + kind] += 1
            ms = refgrammar.render(r, mt)
            for dst in LANGS:
                feed(dst, ms, mt)
            LOG.mark_nontrivial((ms,))
        if k % 997 == 0:
            LOG.sample({'source_grammar': src, 'string': s,
                        'derivable_in': [l for l, v in zip(LANGS, verdicts)
                                         if v],
                        'a_mutant': refgrammar.render(r, muts[0][1])})
    nrandom = 20000 if ctx.quick else 300000
    for k in range(nrandom):
        n = r.randint(1, 12)
        toks = [r.choice(ALL_TOKENS) for _ in range(n)]
        s = refgrammar.render(r, toks)
        if not ctx.mine(k):
            continue
        LOG.sig['kind:random'] += 1
        for dst in LANGS:
            feed(dst, s, toks)
    if ctx.shard == 0 or not ctx.quick:
        hostile = list(HOSTILE)
        hostile.append('not ' * 3000 + 'p')
        hostile.append('(' * 400 + 'p' + ')' * 400)
        hostile.append('p and ' * 2000 + 'p')
        for s in hostile:
            LOG.sig['kind:hostile'] += 1
            for dst in LANGS:
                feed(dst, s)
    else:
        LOG.sig['kind:hostile'] += 0


def replay(ctx, rep):
    attach()
    c = rep['case']
    feed(c['parser'], c['input'], rep.get('tokens'))
