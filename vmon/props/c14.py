"""C14 -- Kripke structures are always total, fully labelled, and copy
faithfully.

Monitors (all on the real class, attached from the harness):
 c14.init        contract on Kripke.__init__: succeeds iff every node of
                 S u ends(R) has a successor, else RuntimeError; afterwards
                 labels/S0/states are exactly what the arguments say
 c14.invariant   icontract.invariant on Kripke (total, one label *set* per
                 state and no others, S0 subset of states), evaluated before
                 and after every public method call made by anyone
 c14.clone       post-condition on Kripke.clone
 c14.substructure post-condition on Kripke.get_substructure
 c14.nonstate    labels(x)/next(x) of a non-state raise RuntimeError
"""

import itertools

import icontract

from .. import mon, gen, probes
from ..mon import LOG

PROP = 'C14'

CONFIG = {
    'technique': ('runtime monitor: icontract class invariant on the real '
                  'Kripke class + constructor/clone/get_substructure '
                  'post-conditions judged against the arguments'),
    'level_text': ('Every construction, clone and get_substructure call '
                   'observed while enumerating all (S,S0,R,L) combinations '
                   'over <=3 states (all 512 relations incl. non-total, extra '
                   'isolated states, S0 in/outside S, partial/foreign/odd-'
                   'typed labellings), sampled 4-state ones and all subsets '
                   'V is judged; the class invariant is evaluated around '
                   'every public method call, including those made by the '
                   'model checkers on their clones.'),
    'level_note': ('Trusted base: the contract conditions in '
                   'vmon/props/c14.py, icontract 2.7.3. V is passed as a set '
                   '(as documented).'),
    'deciding': ['c14.init', 'c14.clone', 'c14.substructure',
                 'c14.nonstate'],
    'shards': {'quick': 16, 'thorough': 16},
    'hashseeds': {'quick': 2, 'thorough': 4},
    'min_evals': {'quick': {'c14.init': 20000, 'c14.clone': 5000,
                            'c14.substructure': 20000,
                            'c14.invariant': 100000, 'c14.nonstate': 5000},
                  'thorough': {'c14.init': 200000}},
    'must_sig': ['init:rejected_non_total', 'init:accepted',
                 'init:isolated_state_rejected', 'init:S0_outside',
                 'init:labels_for_nonstate', 'sub:rejected_non_total',
                 'sub:accepted_proper', 'invariant:during_modelcheck',
                 'deep:big', 'deep:small', 'deep:edit_between_copies'],
    'rule': ('cases = constructor argument combinations (S, S0, R, L) and '
             'subsets V; enumerated: all 1+2+16+512 relations on <=3 states '
             '(total or not) x {S omitted, S = nodes, S with an extra '
             'isolated state} x S0 variants x L variants (None, full, '
             'partial, with a non-state key, values as set/list/tuple/'
             'frozenset) and every subset V of every accepted structure; '
             '4-state relations sampled. non-trivial = a rejected non-total '
             'relation, or an accepted structure with >=2 states and a '
             'non-empty labelling, or a proper non-empty V; distinct by '
             'digest of the argument combination'),
    'exhaustive': {'quick': True, 'thorough': True},
    'exhaustive_note': ('all relations on <=3 states x the listed argument '
                        'variants x all subsets V; 4 states sampled'),
    'assumptions': ['states are hashable, R is a collection of pairs, L is '
                    'None or a dict whose values are iterables of atoms'],
}

_in_mc = [0]


# ---- class invariant (records, never raises into the code under test) ----

def kripke_invariant(self):
    LOG.hit('c14.invariant')
    if _in_mc[0]:
        LOG.sig['invariant:during_modelcheck'] += 1
    bad = None
    try:
        nxt = self._next
        if not hasattr(self, '_labels'):
            return True          # still inside __init__ (DiGraph part)
        lab = self._labels
        for s, d in nxt.items():
            if not d:
                bad = 'state %r has no successor' % (s,)
                break
            for x in d:
                if x not in nxt:
                    bad = 'dangling transition %r -> %r' % (s, x)
        if not bad and set(lab.keys()) != set(nxt.keys()):
            bad = 'label map keys %r != states %r' % (
                sorted(map(repr, lab)), sorted(map(repr, nxt)))
        if not bad:
            for s, l in lab.items():
                if not isinstance(l, (set, frozenset)):
                    bad = 'label of %r is %s, not a set' % (
                        s, type(l).__name__)
                    break
        if not bad and not set(self.S0) <= set(nxt.keys()):
            bad = 'S0 %r not a subset of the states' % (self.S0,)
    except Exception as e:
        bad = 'invariant evaluation failed: ' + mon.fmt_exc(e)
    if bad:
        LOG.violation('c14.invariant', PROP,
                      {'K': repr(getattr(self, '_next', None))[:300],
                       'L': repr(getattr(self, '_labels', None))[:300]},
                      bad, 'total, fully labelled, S0 within states',
                      note='class invariant broken (observed around a public '
                           'method call)')
    return True


# ---- constructor contract ----

def _expect_init(S, S0, R, L):
    """(ok, states(list), succ dict, labels dict, s0 set) from the arguments,
    written from the documentation."""
    states = []
    seen = set()

    def add(x):
        if x not in seen:
            seen.add(x)
            states.append(x)
    if S is not None:
        for x in S:
            add(x)
    succ = {}
    if R is not None:
        for a, b in R:
            add(a)
            add(b)
            succ.setdefault(a, set()).add(b)
    ok = all(succ.get(s) for s in states)
    labels = {}
    for s in states:
        labels[s] = set(L[s]) if (L is not None and s in L) else set()
    s0 = set(x for x in (S0 or ()) if x in seen)
    return ok, states, succ, labels, s0


def _wrap_init(orig):
    def __init__(self, S=None, S0=None, R=None, L=None):
        # materialise iterables so that the oracle and the code see the same
        # one-shot iterators are split with itertools.tee: the constructor
        # still receives a one-shot iterator (its behaviour may depend on
        # that), the oracle reads the other branch
        mat = []
        real = []
        for a in (S, S0, R):
            if a is not None and hasattr(a, '__next__'):
                try:
                    a, mine = itertools.tee(a)
                    mat.append(list(mine))
                except Exception:
                    mat.append(a)
            else:
                mat.append(a)
            real.append(a)
        S_, S0_, R_ = mat
        site = mon.caller_site(2)
        exp = None
        try:
            if L is None or isinstance(L, dict):
                exp = _expect_init(S_, S0_, R_, L)
        except Exception:
            exp = None
        err = None
        try:
            orig(self, real[0], real[1], real[2], L)
        except BaseException as e:
            err = e
        if exp is not None:
            LOG.hit('c14.init', site)
            ok, states, succ, labels, s0 = exp
            case = {'S': repr(S_), 'S0': repr(S0_), 'R': repr(R_),
                    'L': repr(L), 'site': site}
            bad = None
            if ok and err is not None:
                bad = 'total relation rejected: ' + mon.fmt_exc(err)
            elif not ok and err is None:
                bad = 'non-total relation accepted'
            elif not ok and not isinstance(err, RuntimeError):
                bad = 'rejected with %s, not RuntimeError' % mon.fmt_exc(err)
            elif ok:
                try:
                    if set(self._next.keys()) != set(states) or \
                            len(self._next) != len(states):
                        bad = 'states differ'
                    elif any(set(self._next[s]) != succ.get(s, set())
                             for s in states):
                        bad = 'transitions differ'
                    elif set(self._labels.keys()) != set(states):
                        bad = 'label map keys differ from the states'
                    elif any(self._labels[s] != labels[s] or
                             not isinstance(self._labels[s],
                                            (set, frozenset))
                             for s in states):
                        bad = 'label sets differ from L'
                    elif set(self.S0) != s0:
                        bad = 'S0 is %r, expected %r' % (self.S0, s0)
                except Exception as e:
                    bad = 'constructed object unreadable: ' + mon.fmt_exc(e)
            if not ok:
                LOG.sig['init:rejected_non_total'] += 1
                if S_ is not None and any(
                        s not in succ and
                        not any(s in d for d in succ.values())
                        for s in states):
                    LOG.sig['init:isolated_state_rejected'] += 1
            else:
                LOG.sig['init:accepted'] += 1
            if S0_ and any(x not in set(states) for x in S0_):
                LOG.sig['init:S0_outside'] += 1
            if L and any(k not in set(states) for k in L):
                LOG.sig['init:labels_for_nonstate'] += 1
            if (not ok) or (len(states) >= 2 and any(labels.values())):
                if not site.startswith('pyModelChecking'):
                    LOG.mark_nontrivial(('init', case['S'], case['S0'],
                                         case['R'], case['L']))
            if bad:
                LOG.violation('c14.init', PROP, case,
                              'raised ' + mon.fmt_exc(err) if err else
                              {'next': repr(getattr(self, '_next', None)),
                               'labels': repr(getattr(self, '_labels', None)),
                               'S0': repr(getattr(self, 'S0', None))},
                              'accepted' if ok else 'RuntimeError', note=bad)
        else:
            LOG.counters['c14.init_out_of_domain'] += 1
        if err is not None:
            raise err
    return __init__


def _kr(K):
    return {'next': {repr(k): sorted(map(repr, v))
                     for k, v in K._next.items()},
            'labels': {repr(k): sorted(map(repr, v))
                       for k, v in K._labels.items()},
            'S0': sorted(map(repr, K.S0))}


def _wrap_clone(orig):
    def clone(self):
        site = mon.caller_site(2)
        before = _kr(self)
        res = orig(self)
        LOG.hit('c14.clone', site)
        bad = None
        try:
            if res is self:
                bad = 'clone returned the receiver'
            elif type(res) is not type(self):
                bad = 'clone is a %s' % type(res).__name__
            elif _kr(res) != before:
                bad = 'clone differs from the original'
            elif any(res._labels[s] is self._labels[s] for s in self._labels):
                bad = 'clone shares a label set with the original'
            elif res._labels is self._labels:
                bad = 'clone shares the label map with the original'
            elif _kr(self) != before:
                bad = 'receiver changed'
        except Exception as e:
            bad = 'clone unreadable: ' + mon.fmt_exc(e)
        if len(self._next) >= 2 and any(self._labels.values()) and \
                not site.startswith('pyModelChecking'):
            LOG.mark_nontrivial(('clone', repr(before)))
        if bad:
            LOG.violation('c14.clone', PROP, {'K': before, 'site': site},
                          _kr(res) if hasattr(res, '_labels') else repr(res),
                          'an equal structure sharing no label set', note=bad)
        return res
    return clone


def _wrap_substructure(orig):
    def get_substructure(self, V):
        site = mon.caller_site(2)
        before = _kr(self)
        states = set(self._next.keys())
        try:
            Vs = set(V)
        except Exception:
            return orig(self, V)
        keep = Vs & states
        esucc = {s: set(d for d in self._next[s] if d in keep)
                 for s in keep}
        total = all(esucc[s] for s in keep)
        err = None
        res = None
        try:
            res = orig(self, V)
        except BaseException as e:
            err = e
        LOG.hit('c14.substructure', site)
        bad = None
        if total and err is not None:
            bad = 'raised although the induced relation is total: ' + \
                mon.fmt_exc(err)
        elif not total and err is None:
            bad = 'returned a structure although the induced relation is ' \
                'not total'
        elif not total and not isinstance(err, RuntimeError):
            bad = 'raised %s, not RuntimeError' % mon.fmt_exc(err)
        elif total:
            try:
                if set(res._next.keys()) != keep:
                    bad = 'states differ from V & S'
                elif any(set(res._next[s]) != esucc[s] for s in keep):
                    bad = 'transitions are not exactly the induced ones'
                elif set(res._labels.keys()) != keep:
                    bad = 'label keys differ from the retained states'
                elif any(set(res._labels[s]) != set(self._labels[s])
                         for s in keep):
                    bad = 'labels of retained states differ from the ' \
                        'original labels'
                elif any(res._labels[s] is self._labels[s] for s in keep):
                    bad = 'a label set is shared with the original'
                elif any(res._labels[s] is self._next[s] for s in keep):
                    bad = 'a label set aliases a successor set'
                elif set(res.S0) != (Vs & set(self.S0)):
                    bad = 'S0 differs from V & S0'
            except Exception as e:
                bad = 'result unreadable: ' + mon.fmt_exc(e)
        if not bad and _kr(self) != before:
            bad = 'receiver changed'
        if not total:
            LOG.sig['sub:rejected_non_total'] += 1
        elif keep and keep != states:
            LOG.sig['sub:accepted_proper'] += 1
        if keep and keep != states:
            LOG.mark_nontrivial(('sub', repr(before),
                                 sorted(map(repr, Vs))))
        if bad:
            LOG.violation(
                'c14.substructure', PROP,
                {'K': before, 'V': sorted(map(repr, Vs)), 'site': site},
                ('raised ' + mon.fmt_exc(err)) if err is not None else
                (_kr(res) if hasattr(res, '_labels') else repr(res)),
                {'states': sorted(map(repr, keep)),
                 'labels': {repr(s): sorted(map(repr, self._labels[s]))
                            for s in keep}} if total else 'RuntimeError',
                note=bad)
        if err is not None:
            raise err
        return res
    return get_substructure


def attach():
    def do():
        from pyModelChecking import kripke as km
        import pyModelChecking.CTL
        import pyModelChecking.LTL
        import pyModelChecking.CTLS
        K = km.Kripke
        o_init = K.__dict__['__init__']
        o_clone = K.__dict__['clone']
        o_sub = K.__dict__['get_substructure']
        probes.watch([('__init__', o_init), ('clone', o_clone),
                      ('get_substructure', o_sub),
                      ('labels', K.__dict__['labels']),
                      ('next', K.__dict__['next'])])
        K.__init__ = _wrap_init(o_init)
        K.clone = _wrap_clone(o_clone)
        K.get_substructure = _wrap_substructure(o_sub)
        icontract.invariant(kripke_invariant, error=mon.InvariantBroken)(K)
        return True
    return mon.attach_once('c14', do)


# ---- workload ----

def nonstate_probe(K):
    for x in ('__no_such_state__', ('not', 'a', 'state'), -12345):
        if x in K._next:
            continue
        for meth in ('labels', 'next'):
            LOG.hit('c14.nonstate')
            try:
                getattr(K, meth)(x)
                LOG.violation('c14.nonstate', PROP,
                              {'K': _kr(K), 'x': repr(x), 'method': meth},
                              'returned a value', 'RuntimeError',
                              note='non-state accepted')
            except RuntimeError:
                pass
            except Exception as e:
                LOG.violation('c14.nonstate', PROP,
                              {'K': _kr(K), 'x': repr(x), 'method': meth},
                              'raised ' + mon.fmt_exc(e), 'RuntimeError',
                              note='wrong exception type')


def state_independence(K):
    """Every state has its OWN label set: editing the labels of one state
    (the way CTL* model checking itself does on its working copy) leaves the
    labels of every other state alone."""
    sts = list(K._next.keys())
    if len(sts) < 2:
        return
    LOG.hit('c14.state_independence')
    for s in sts:
        l = K.labels(s)
        if not isinstance(l, set):
            continue             # immutable label sets cannot interfere
        others = {t: set(K.labels(t)) for t in sts if t != s}
        l.add('__vmon_probe__')
        changed = [t for t in others if set(K.labels(t)) != others[t]]
        l.discard('__vmon_probe__')
        if changed:
            LOG.violation('c14.init', PROP, {'K': _kr(K), 'edited': repr(s)},
                          'labels of %s changed too' % sorted(map(repr,
                                                                  changed)),
                          'only the edited state changes',
                          note='two states share one label set')
            return


def relations(n):
    pairs = [(i, j) for i in range(n) for j in range(n)]
    for m in range(1 << len(pairs)):
        yield [pairs[k] for k in range(len(pairs)) if m >> k & 1]


def label_variants(states, r, k):
    atoms = ['p', 'q']
    yield None
    full = {s: set(a for a in atoms if r.random() < 0.6) for s in states}
    yield full
    if states:
        yield {s: l for s, l in list(full.items())[:max(1, len(states) // 2)]}
    conts = [list, tuple, frozenset, set]
    odd = {s: conts[(i + k) % 4](['p', 'q'][: 1 + (i + k) % 2])
           for i, s in enumerate(states)}
    odd['__non_state__'] = {'z'}
    yield odd
    yield {s: ['not p', '(p or q)', 7, ('t',)][: (i + k) % 4 + 1]
           for i, s in enumerate(states)}
    # a string is an iterable of (one-character) atoms
    yield {s: 'pq'[: (i + k) % 3] for i, s in enumerate(states)}


def name_fn(k):
    return [lambda i: i, lambda i: 's%d' % i, lambda i: (i, i + 1)][k % 3]


def drive(n, R, k, ctx, r):
    from pyModelChecking.kripke import Kripke
    nm = name_fn(k)
    Rn = [(nm(a), nm(b)) for a, b in R]
    nodes = [nm(i) for i in range(n)]
    svars = [None, list(nodes), list(nodes) + ['extra'], set(nodes),
             (x for x in nodes)]
    s0vars = [None, [], nodes[:1], nodes[:1] + ['outside'], set(nodes)]
    Rvars = [Rn, set(Rn), tuple(reversed(Rn))]
    S = svars[k % 5]
    S0 = s0vars[(k // 5) % 5]
    Rv = Rvars[k % 3]
    if S is None:
        used = set(x for e in Rn for x in e)
        sts = [x for x in nodes if x in used]
    elif k % 5 == 4:
        sts = nodes
    else:
        sts = list(S)
    for L in label_variants(sts, r, k):
        if k % 5 == 4:
            S = (x for x in nodes)
        try:
            K = Kripke(S, S0, Rv, L)
        except Exception:
            continue
        nonstate_probe(K)
        state_independence(K)
        C = K.clone()
        # independence of the clone
        before = _kr(K)
        for s in C._labels:
            C._labels[s].add('__probe__')
        if _kr(K) != before:
            LOG.violation('c14.clone', PROP, {'K': before},
                          'original changed when the clone was relabelled',
                          'independent label sets', note='aliasing')
        st = list(K._next.keys())
        for m in range(1 << len(st)):
            V = set(st[i] for i in range(len(st)) if m >> i & 1)
            if m % 3 == 0:
                V.add('__not_a_state__')
            try:
                Sub = K.get_substructure(V)
                for s in Sub._labels:
                    Sub._labels[s].add('__probe__')
                if _kr(K) != before:
                    LOG.violation('c14.substructure', PROP, {'K': before},
                                  'original changed when the substructure '
                                  'was relabelled', 'independent label sets',
                                  note='aliasing')
                    before = _kr(K)
            except Exception:
                pass
        if k % 50 == 0 and len(st) >= 2:
            LOG.sample({'S': repr(S)[:60], 'S0': repr(S0), 'R': repr(Rv),
                        'L': repr(L)})


def deep_copies(ctx, r):
    """Clones of clones, substructures of substructures, big rings, label
    values that are themselves tuples / frozensets, equal-but-distinct state
    objects."""
    from pyModelChecking.kripke import Kripke
    for k in range(60 if ctx.quick else 1500):
        if not ctx.mine(k):
            continue
        rr = gen.rng(ctx.seed, PROP, ('deep', k))
        big = k % 10 == 0
        n = rr.randint(200, 400) if big else rr.randint(4, 7)
        nm = [lambda i: i, lambda i: 'st%d' % i,
              lambda i: (i // 3, i % 3, 'k')][k % 3]
        R = [(nm(i), nm((i + 1) % n)) for i in range(n)]
        for _ in range(n // 2):
            a, b = rr.randrange(n), rr.randrange(n)
            R.append((nm(a), nm(b)))
        if not big:
            R.append((nm(n - 1), nm(n - 1)))     # last listed: a self-loop
        atoms = ['p', ('t', 1), frozenset(['x', 'y']), 'q', 7]
        L = {nm(i): set(a for a in atoms if rr.random() < 0.3)
             for i in range(n) if rr.random() < 0.8}
        # equal but distinct objects for the same state in S, R and L
        if k % 3 == 2:
            L = {(a[0], a[1], ''.join(['k'])): v for a, v in L.items()}
        LOG.sig['deep:big' if big else 'deep:small'] += 1
        try:
            K = Kripke(S=[nm(i) for i in range(n)], S0=[nm(0)], R=R, L=L)
            C1 = K.clone()
            C2 = C1.clone()
            C3 = C2.clone()
            st = list(C3.states())
            V = set(st[: max(2, len(st) * 2 // 3)])
            for _ in range(3):
                try:
                    S1 = C3.get_substructure(V)
                    V2 = set(list(S1.states())[: max(1, len(V) // 2)])
                    S1.get_substructure(V2 | {'__not_a_state__'})
                    S1.clone().get_substructure(set(S1.states()))
                except RuntimeError:
                    pass
                V = set(rr.sample(st, rr.randint(1, len(st))))
            if not big:
                state_independence(C2)
                # the structure changes (new transitions between existing
                # states, relabelling) between copies: every later copy is
                # judged against the structure as it then is
                LOG.sig['deep:edit_between_copies'] += 1
                K.transitions()
                K.clone()
                sts2 = list(K.states())
                for _ in range(3):
                    a, b = rr.choice(sts2), rr.choice(sts2)
                    if b not in K.next(a):
                        K.add_edge(a, b)
                    K.labels(rr.choice(sts2)).add('edited')
                    K.transitions()
                    Cn = K.clone()
                    Cn.clone()
                    try:
                        K.get_substructure(set(sts2))
                        Cn.add_edge(sts2[0], sts2[-1]) if sts2[-1] not in \
                            Cn.next(sts2[0]) else None
                        Cn.clone()
                    except RuntimeError:
                        pass
        except RuntimeError:
            pass


def with_modelcheckers(ctx, r):
    """Invariant around the public-method calls the model checkers make."""
    from pyModelChecking import CTL, CTLS, LTL
    from .. import mcwork
    _in_mc[0] = 1
    try:
        for i in range(120 if ctx.quick else 3000):
            nk = gen.random_structure(r, 4)
            t = gen.random_ctls_state(r, 3, qdepth=2)
            if not ctx.mine(i):
                continue
            K = mcwork.kripke_of(nk)
            try:
                CTLS.modelcheck(K, mcwork.formula_arg('CTLS', t, 'obj'))
                CTL.modelcheck(K, mcwork.formula_arg(
                    'CTL', gen.random_ctl(r, 2), 'obj'),
                    F=[set(list(K.states())[:1])])
            except Exception:
                LOG.counters['mc_raised'] += 1
    finally:
        _in_mc[0] = 0


def run(ctx):
    attach()
    r = gen.rng(ctx.seed, PROP, 'main')
    k = 0
    for n in (0, 1, 2, 3):
        for R in relations(n):
            reps = 15 if n <= 2 else 3
            for j in range(reps):
                if ctx.mine(k):
                    drive(n, R, k, ctx, gen.rng(ctx.seed, PROP, k))
                k += 1
    pairs4 = [(i, j) for i in range(4) for j in range(4)]
    for j in range(1500 if ctx.quick else 60000):
        m = r.getrandbits(16) | (r.getrandbits(16) if r.random() < .5 else 0)
        R = [pairs4[b] for b in range(16) if m >> b & 1]
        if ctx.mine(k):
            drive(4, R, k, ctx, gen.rng(ctx.seed, PROP, k))
        k += 1
    deep_copies(ctx, r)
    with_modelcheckers(ctx, r)
    ctx.extra['reach'] = probes.result()


def finalize(reports, ctx):
    merged = probes.merge([r['extra'].get('reach', {}) for r in reports])
    return {'coverage': {'reach': {k: {'lines': v['lines'], 'hit': v['hit'],
                                       'never_reached': v['never_reached']}
                                   for k, v in merged.items()}}}


def replay(ctx, rep):
    attach()
    from pyModelChecking.kripke import Kripke
    c = rep['case']
    if 'V' in c:
        K = Kripke(R=[(eval(a), eval(b)) for a, ds in c['K']['next'].items()
                      for b in ds],
                   L={eval(a): set(eval(x) for x in l)
                      for a, l in c['K']['labels'].items()},
                   S0=[eval(x) for x in c['K']['S0']])
        try:
            K.get_substructure(set(eval(x) for x in c['V']))
        except Exception:
            pass        # judged by the monitor
    elif 'R' in c:
        try:
            Kripke(eval(c['S']), eval(c['S0']), eval(c['R']), eval(c['L']))
        except Exception:
            pass
