"""Boundary recorder for the three modelcheck functions.

Every call (top level, or nested: CTLS -> CTL/LTL) produces one McCall record:
arguments neutralised BEFORE the call, deep snapshot of the caller's structure
before and after (also when the call raises), outcome.  Judges registered by the
property modules are run on every record.
"""

import sys

from . import mon
from .mon import LOG
from .neutral import (tree_of, nk_of, deep_snapshot, snapshot_diff,
                      NeutralError)

LOGICS = ('CTL', 'LTL', 'CTLS')
_depth = [0]
judges = []          # functions(call)
_orig = {}


class McCall(object):
    __slots__ = ('logic', 'nested', 'site', 'kripke', 'formula', 'nk', 'tree',
                 'text', 'F', 'Fmasks', 'raised', 'result', 'result_mask',
                 'result_bad', 'pre', 'post', 'tree_after', 'parser',
                 'neutral_error', 'seq')

    def denoted(self):
        """Tree denoted by the formula argument (texts: as registered by the
        workload that produced them)."""
        if self.text is not None:
            from .mcwork import TEXT_TREES
            return TEXT_TREES.get(self.text)
        return self.tree

    def case(self):
        """JSON-able description of the call (for replays / samples)."""
        return {
            'logic': self.logic,
            'nested': self.nested,
            'K': self.nk.to_json() if self.nk is not None else None,
            'formula': self.denoted(),
            'text': self.text,
            'F': [sorted(map(repr, P)) if not isinstance(P, (int, str))
                  else repr(P) for P in self.F]
            if isinstance(self.F, (list, tuple)) else
            (None if self.F is None else repr(self.F)),
        }


_seq = [0]


def _wrap(logic, orig):
    def modelcheck(kripke, formula, parser=None, F=None):
        c = McCall()
        _seq[0] += 1
        c.seq = _seq[0]
        c.logic = logic
        c.nested = _depth[0] > 0
        c.site = mon.caller_site(2)
        c.kripke = kripke
        c.formula = formula
        c.parser = parser
        c.F = F
        c.Fmasks = None
        c.neutral_error = None
        c.nk = None
        c.pre = None
        c.tree = None
        c.text = formula if isinstance(formula, str) else None
        try:
            if hasattr(kripke, '_next') and hasattr(kripke, '_labels'):
                c.nk = nk_of(kripke)
                c.pre = deep_snapshot(kripke)
            if c.text is None:
                c.tree = tree_of(formula)
        except NeutralError as e:
            c.neutral_error = str(e)
        except Exception as e:     # non-formula objects etc.
            c.neutral_error = mon.fmt_exc(e)
        if c.nk is not None and isinstance(F, (list, tuple)):
            try:
                c.Fmasks = [c.nk.mask_of(x for x in P if x in c.nk.idx)
                            for P in F]
            except Exception:
                c.Fmasks = None
        c.raised = None
        c.result = None
        _depth[0] += 1
        try:
            c.result = orig(kripke, formula, parser=parser, F=F)
        except BaseException as e:
            c.raised = e
        finally:
            _depth[0] -= 1
        c.post = None
        c.tree_after = None
        try:
            if c.pre is not None:
                c.post = deep_snapshot(kripke)
            if c.text is None and c.tree is not None:
                c.tree_after = tree_of(formula)
        except Exception as e:
            c.neutral_error = 'after call: ' + mon.fmt_exc(e)
        c.result_mask = None
        c.result_bad = None
        if c.raised is None and c.nk is not None:
            try:
                m = 0
                for s in c.result:
                    if s in c.nk.idx:
                        m |= 1 << c.nk.idx[s]
                    else:
                        c.result_bad = 'result contains non-state %r' % (s,)
                c.result_mask = m
            except Exception as e:
                c.result_bad = 'result not iterable: ' + mon.fmt_exc(e)
        LOG.hit('mc.' + logic, c.site)
        for j in list(judges):
            j(c)
        if c.raised is not None:
            raise c.raised
        return c.result
    modelcheck.__wrapped_by_vmon__ = True
    modelcheck.__name__ = 'modelcheck'
    return modelcheck


def attach():
    def do():
        import pyModelChecking.CTL
        import pyModelChecking.LTL
        import pyModelChecking.CTLS
        places = {}
        for logic in LOGICS:
            m = sys.modules['pyModelChecking.%s.model_checking' % logic]
            orig = m.modelcheck
            _orig[logic] = orig
            places[logic] = mon.rebind(orig, _wrap(logic, orig))
        return places
    return mon.attach_once('mcwrap', do)


def original(logic):
    return _orig[logic]
