"""Boolean-function oracles for the BDD properties: truth tables by Python's
own evaluation of expressions, and an independent walker over real diagrams."""

import itertools


def assignments(variables):
    """All assignments as dicts, in a fixed order (bit i of k = variables[i])."""
    n = len(variables)
    for k in range(1 << n):
        yield {v: bool(k >> i & 1) for i, v in enumerate(variables)}


def tt_of_expr(expr, variables):
    """Truth table (int bit mask over assignment index) of a Python Boolean
    expression using & | ~ ^ and/or/not over the variables; ~ on bools is made
    logical by evaluating over a tiny wrapper class."""
    class B(object):
        __slots__ = ('v',)

        def __init__(self, v):
            self.v = bool(v)

        def __and__(self, o):
            return B(self.v and _b(o))

        __rand__ = __and__

        def __or__(self, o):
            return B(self.v or _b(o))

        __ror__ = __or__

        def __xor__(self, o):
            return B(self.v != _b(o))

        __rxor__ = __xor__

        def __invert__(self):
            return B(not self.v)

        def __bool__(self):
            return self.v

    def _b(o):
        return o.v if isinstance(o, B) else bool(o)
    import ast

    class Consts(ast.NodeTransformer):
        # literal 0/1 are Boolean constants of the expression language, not
        # Python ints (on which ~ would be bitwise)
        def visit_Constant(self, node):
            if node.value in (0, 1, True, False):
                return ast.copy_location(
                    ast.Name(id='_T_' if node.value else '_F_',
                             ctx=ast.Load()), node)
            return node
    tree = ast.fix_missing_locations(Consts().visit(
        ast.parse(expr.strip(), mode='eval')))
    code = compile(tree, '<expr>', 'eval')
    tt = 0
    for k, a in enumerate(assignments(variables)):
        env = {v: B(val) for v, val in a.items()}
        env['_T_'] = B(True)
        env['_F_'] = B(False)
        val = eval(code, {'__builtins__': {}}, env)
        if _b(val):
            tt |= 1 << k
    return tt


def eval_node(node, a):
    """Follow the real diagram under assignment a (dict var -> bool)."""
    steps = 0
    while type(node).__name__ == 'BDDNonTerminalNode':
        node = node.high if a[node.var] else node.low
        steps += 1
        if steps > 10000:
            raise RuntimeError('cycle in diagram')
    return bool(node.value)


def tt_of_node(node, variables):
    tt = 0
    for k, a in enumerate(assignments(variables)):
        if eval_node(node, a):
            tt |= 1 << k
    return tt


def reachable(node):
    seen = {}
    stack = [node]
    while stack:
        x = stack.pop()
        if id(x) in seen:
            continue
        seen[id(x)] = x
        if type(x).__name__ == 'BDDNonTerminalNode':
            stack.append(x.low)
            stack.append(x.high)
    return list(seen.values())


def structure_problem(node, order_list):
    """Reduced & ordered? returns reason or None."""
    pos = {v: i for i, v in enumerate(order_list)}
    nodes = reachable(node)
    triples = {}
    for x in nodes:
        if type(x).__name__ != 'BDDNonTerminalNode':
            if type(x).__name__ != 'BDDTerminalNode':
                return 'foreign node %r' % (x,)
            continue
        if x.var not in pos:
            return 'variable %r outside the ordering' % (x.var,)
        if x.low is x.high:
            return 'node on %r has identical children' % (x.var,)
        for ch in (x.low, x.high):
            if type(ch).__name__ == 'BDDNonTerminalNode':
                if ch.var not in pos or not pos[x.var] < pos[ch.var]:
                    return 'node on %r above child on %r violates the ' \
                        'ordering' % (x.var, ch.var)
        key = (x.var, id(x.low), id(x.high))
        if key in triples:
            return 'two reachable nodes with the same (var, low, high)'
        triples[key] = x
    return None


def support(node):
    return set(x.var for x in reachable(node)
               if type(x).__name__ == 'BDDNonTerminalNode')


def tt_support(tt, variables):
    """Variables the function really depends on."""
    n = len(variables)
    dep = set()
    for i, v in enumerate(variables):
        for k in range(1 << n):
            if not k >> i & 1:
                if (tt >> k & 1) != (tt >> (k | 1 << i) & 1):
                    dep.add(v)
                    break
    return dep


def expr_of_tt(tt, variables, style=0):
    """A canonical expression text denoting truth table tt (DNF of
    minterms; style 1 uses and/or/not, style 2 a CNF)."""
    n = len(variables)
    AND, OR, NOT = (' & ', ' | ', '~') if style != 1 else \
        (' and ', ' or ', 'not ')
    if tt == 0:
        return '0' if style != 1 else 'False'
    if tt == (1 << (1 << n)) - 1:
        return '1' if style != 1 else 'True'
    if style == 2:
        clauses = []
        for k in range(1 << n):
            if not tt >> k & 1:
                lits = [('~' + v if k >> i & 1 else v)
                        for i, v in enumerate(variables)]
                clauses.append('(' + ' | '.join(lits) + ')')
        return ' & '.join(clauses)
    terms = []
    for k in range(1 << n):
        if tt >> k & 1:
            lits = [(v if k >> i & 1 else '%s%s' % (NOT, v))
                    for i, v in enumerate(variables)]
            terms.append('(' + AND.join(lits) + ')')
    return OR.join(terms)
