"""Independent evaluator of path formulas on ultimately periodic words.

A lasso is (u, v): positions 0..|u|+|v|-1, successor of the last position is
|u|.  Each subformula is evaluated to a bit vector over positions; temporal
operators by iterating their one-step unfolding to a fix-point from the
appropriate extreme (least for U/F, greatest for R/G).  This shares no code
and no algorithm with refsem's product construction.

`leaf(t, position_item)` gives the truth of a state-formula leaf at a word
letter (a set of atoms) or at a structure state index.
"""

from .neutral import TEMPORAL, QUANT


def _is_state(t):
    op = t[0]
    if op in ('ap', 'bool') or op in QUANT:
        return True
    if op in TEMPORAL:
        return False
    return all(_is_state(c) for c in t[1:])


def eval_lasso(g, u, v, leaf, memo=None):
    """Bit vector (int) over positions where g holds on the word u.v^omega.
    Bit 0 = whole path.  `leaf(t, item)` -> bool for maximal state
    subformulas t (only called for ap/bool/quantified/Boolean-of-those)."""
    word = list(u) + list(v)
    n = len(word)
    loop = len(u)
    if not v:
        raise ValueError('empty loop')
    full = (1 << n) - 1
    if memo is None:
        memo = {}

    def nxt(z):
        # positions whose successor is in z
        r = (z >> 1) & (full >> 1)
        if z >> loop & 1:
            r |= 1 << (n - 1)
        return r

    def ev(t):
        r = memo.get(t)
        if r is not None:
            return r
        op = t[0]
        if op in ('ap', 'bool') or op in QUANT or \
                (op not in TEMPORAL and _is_state(t)):
            r = 0
            for i, item in enumerate(word):
                if leaf(t, item):
                    r |= 1 << i
        elif op == 'not':
            r = full & ~ev(t[1])
        elif op == 'or':
            r = 0
            for c in t[1:]:
                r |= ev(c)
        elif op == 'and':
            r = full
            for c in t[1:]:
                r &= ev(c)
        elif op == 'imply':
            r = (full & ~ev(t[1])) | ev(t[2])
        elif op == 'X':
            r = nxt(ev(t[1]))
        elif op == 'F':
            a = ev(t[1])
            r = 0
            while True:
                nr = a | nxt(r)
                if nr == r:
                    break
                r = nr
        elif op == 'G':
            a = ev(t[1])
            r = full
            while True:
                nr = a & nxt(r)
                if nr == r:
                    break
                r = nr
        elif op == 'U':
            a = ev(t[1])
            b = ev(t[2])
            r = 0
            while True:
                nr = b | (a & nxt(r))
                if nr == r:
                    break
                r = nr
        elif op == 'R':
            a = ev(t[1])
            b = ev(t[2])
            r = full
            while True:
                nr = b & (a | nxt(r))
                if nr == r:
                    break
                r = nr
        else:
            raise ValueError('bad op %r' % (op,))
        memo[t] = r
        return r

    return ev(g)


def holds_on_lasso(g, u, v, leaf):
    return bool(eval_lasso(g, u, v, leaf) & 1)


def word_leaf(t, letter):
    """Leaf evaluation for plain LTL words: letter = set of atom names."""
    op = t[0]
    if op == 'ap':
        return t[1] in letter
    if op == 'bool':
        return t[1]
    if op == 'not':
        return not word_leaf(t[1], letter)
    if op == 'or':
        return any(word_leaf(c, letter) for c in t[1:])
    if op == 'and':
        return all(word_leaf(c, letter) for c in t[1:])
    if op == 'imply':
        return (not word_leaf(t[1], letter)) or word_leaf(t[2], letter)
    raise ValueError('quantifier in a plain word formula: %r' % (t,))


def all_lassos_of(nk, s, maxlen):
    """All (u, v) index paths of nk from s with |u|+|v| <= maxlen, v a cycle
    back to its first state."""
    succ = [[j for j in range(nk.n) if nk.succ[i] >> j & 1]
            for i in range(nk.n)]
    out = []

    def rec(path):
        last = path[-1]
        for j in succ[last]:
            # close a loop to any earlier position holding state j
            for k, x in enumerate(path):
                if x == j:
                    out.append((path[:k], path[k:]))
            if len(path) < maxlen:
                rec(path + [j])
    rec([s])
    return out


def all_words(letters, maxlen):
    """All (u, v) over the given letters with 1 <= |v|, |u|+|v| <= maxlen."""
    import itertools
    out = []
    for total in range(1, maxlen + 1):
        for w in itertools.product(letters, repeat=total):
            for lu in range(0, total):
                out.append((list(w[:lu]), list(w[lu:])))
    return out
