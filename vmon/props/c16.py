"""C16 -- equal Boolean functions share one OBDD under every creation / GC
history.

Monitors
 c16.new     online checker on every BDDNonTerminalNode.__new__ return, against
             a shadow unique table kept by the harness (WeakValueDictionary
             keyed by (var, id(low), id(high)) -- independent of the f_low /
             f_high weak sets under test): low is high -> returns low; a live
             node with that triple exists -> returns that very object;
             otherwise a new node with exactly those fields
 c16.census  invariant at quiescent points, through gc.get_objects() (again
             independent of the tables under test): no two live non-terminal
             nodes share (var, low, high), no node has low is high, one
             terminal per truth value
 c16.canon   for all pairs in the live pool: a == b  <=>  a.root is b.root
             <=>  equal truth tables (independent walker)
 c16.links   (diagnostic) every live node is in its children's parent sets
Fault injection: a sys.monitoring LINE callback on the code objects of
BDD/BDD.py acts as scheduler -- at statement boundaries inside find_isomorph,
__new__, __reset__, apply, compute, cache_restrict, __invert__ it drops
harness-held references (refcount deallocation => WeakSet removal while the
table is being iterated), breaks planted garbage cycles' last external
reference, and forces gc.collect().
"""

import gc
import itertools
import random
import sys
import weakref

from .. import mon, gen, refbool
from ..mon import LOG

PROP = 'C16'

CONFIG = {
    'technique': ('runtime monitoring with fault injection: online checker of '
                  'the hash-consing specification against a shadow table, '
                  'gc.get_objects() census invariant, pairwise canonicity '
                  'monitor; sys.monitoring LINE callback injects reference '
                  'drops and garbage collections inside the BDD code'),
    'level_text': ('Random histories (build from expression, & | ^ ~, '
                   'restrict, drop, plant in a garbage cycle, collect) over a '
                   'pool of <=40 OBDDs on <=4 variables are executed while an '
                   'injector drops references and forces collections at '
                   'statement boundaries inside the unique-table code; every '
                   'node creation is checked online and the live heap is '
                   'audited at quiescent points.'),
    'level_note': ('Trusted base: the shadow table and census in '
                   'vmon/props/c16.py, refbool walker, CPython weakref/gc '
                   'semantics. A finite sample of histories and injection '
                   'points (evidence lists how many of each were seen).'),
    'deciding': ['c16.new', 'c16.census', 'c16.canon'],
    'shards': {'quick': 16, 'thorough': 16},
    'hashseeds': {'quick': 2, 'thorough': 2},
    'min_evals': {'quick': {'c16.new': 200000, 'c16.census': 500,
                            'c16.canon': 50000},
                  'thorough': {'c16.new': 5000000}},
    'internal_sig': ['inject:drop_in_find_isomorph',
                     'inject:gc_in_find_isomorph'],
    'must_sig': ['new:created', 'new:reused', 'new:collapsed',
                 'inject:drop_in_find_isomorph', 'inject:gc_in_find_isomorph',
                 'inject:drop', 'inject:gc', 'step:cycle', 'step:restrict',
                 'step:xor', 'died'],
    'rule': ('cases = operation histories (300 steps quick / 1500 thorough) '
             'over a pool of <=40 OBDDs, <=4 variables, one random ordering '
             'per history, with injected drops/collections; plus all pairs '
             'of expressions over <=3 variables built in both orders '
             '(thorough). non-trivial = a __new__ call that had to decide '
             'between reusing a live node and creating one (both children '
             'distinct), counted per history as distinct (history, creation '
             'index); distinct histories by seed'),
    'exhaustive': {'quick': False, 'thorough': False},
    'assumptions': ['reference drops are injected only for references the '
                    'harness itself holds (the pool, planted cycles)'],
}

TOOL = 3
_shadow = weakref.WeakValueDictionary()
_state = {'inj': None, 'in_new': 0, 'created': 0, 'hist': 0}
_bm = [None]


# ---- online checker on __new__ -------------------------------------------

def _wrap_new(orig, NT):
    def __new__(cls, var, low, high):
        key = None
        existing = None
        try:
            key = (var, id(low), id(high))
            existing = _shadow.get(key)
            if existing is not None and not (existing.low is low and
                                             existing.high is high and
                                             existing.var == var):
                existing = None      # stale id reuse (cannot happen while
                #                      the entry is alive, but be safe)
        except Exception:
            pass
        inj = _state['inj']
        if inj is not None:
            inj.depth += 1
        try:
            node = orig(cls, var, low, high)
        finally:
            if inj is not None:
                inj.depth -= 1
        if key is None:
            return node
        LOG.hit('c16.new')
        _state['created'] += 1
        bad = None
        if low is high:
            LOG.sig['new:collapsed'] += 1
            if node is not low:
                bad = 'low is high but a node other than low was returned'
        elif existing is not None:
            LOG.sig['new:reused'] += 1
            LOG.counters['nontrivial_new'] += 1
            if node is not existing:
                bad = ('a live node with the same (var, low, high) exists '
                       'but another object was returned (duplicate created)')
        else:
            LOG.sig['new:created'] += 1
            LOG.counters['nontrivial_new'] += 1
            if type(node) is not NT or node.var != var or \
                    node.low is not low or node.high is not high:
                bad = 'new node does not carry the requested fields'
            else:
                _shadow[key] = node
        if bad:
            LOG.violation('c16.new', PROP,
                          {'history': _state['hist'], 'var': var,
                           'low': str(low), 'high': str(high),
                           'creation_index': _state['created'],
                           'replay': _replay_info()},
                          str(node), 'the unique node', note=bad)
        return node
    return __new__


def _replay_info():
    inj = _state['inj']
    return {'history': _state['hist'],
            'injector': inj.describe() if inj else None}


# ---- census ---------------------------------------------------------------

def census(where):
    bm = _bm[0]
    NT, T = bm.BDDNonTerminalNode, bm.BDDTerminalNode
    LOG.hit('c16.census')
    triples = {}
    terms = {}
    nlive = 0
    for o in gc.get_objects():
        t = type(o)
        if t is NT:
            nlive += 1
            try:
                key = (o.var, id(o.low), id(o.high))
            except AttributeError:
                continue          # being constructed
            if o.low is o.high:
                LOG.violation('c16.census', PROP,
                              {'where': where, 'replay': _replay_info()},
                              str(o), 'low is not high',
                              note='live node with identical children')
            if key in triples:
                LOG.violation('c16.census', PROP,
                              {'where': where, 'var': o.var,
                               'low': str(o.low), 'high': str(o.high),
                               'replay': _replay_info()},
                              'two live nodes with one (var, low, high)',
                              'at most one',
                              note='duplicate triple in the live heap')
            triples[key] = o
        elif t is T:
            v = bool(o.value)
            if v in terms and terms[v] is not o:
                LOG.violation('c16.census', PROP, {'where': where},
                              'two terminals for %r' % v, 'one',
                              note='terminal not a singleton')
            terms[v] = o
    LOG.counters['census_live_nodes_max'] = max(
        LOG.counters.get('census_live_nodes_max', 0), nlive)
    # diagnostic: parent links
    LOG.hit('c16.links')
    for o in triples.values():
        try:
            if o not in o.low.f_low or o not in o.high.f_high:
                LOG.violation('c16.links', PROP + '-diag',
                              {'where': where, 'node': str(o)},
                              'missing from a child\'s parent set',
                              'registered in low.f_low and high.f_high',
                              note='unique-table link missing')
                break
        except Exception:
            pass
    return nlive


# ---- injector ---------------------------------------------------------------

class Injector(object):
    def __init__(self, seed, pool, cycles, pdrop, pgc):
        self.r = random.Random(seed)
        self.seed = seed
        self.pool = pool
        self.cycles = cycles
        self.pdrop = pdrop
        self.pgc = pgc
        self.enabled = False
        self.depth = 0
        self.busy = False
        self.events = 0
        self.in_fi = 0

    def describe(self):
        return {'seed': self.seed, 'pdrop': self.pdrop, 'pgc': self.pgc,
                'events_so_far': self.events}

    def on_line(self, code, line):
        if not self.enabled or self.busy:
            return None
        self.events += 1
        LOG.counters['inject.line_events'] += 1
        x = self.r.random()
        if x >= self.pdrop + self.pgc:
            return None
        self.busy = True
        try:
            fi = code.co_name == 'find_isomorph'
            if x < self.pdrop:
                # drop a harness-held reference: either a pool slot or the
                # last outside reference to a planted cycle
                if self.cycles and self.r.random() < 0.3:
                    self.cycles.pop(self.r.randrange(len(self.cycles)))
                    LOG.sig['inject:drop_cycle_ref'] += 1
                else:
                    live = [i for i, o in enumerate(self.pool)
                            if o is not None]
                    if len(live) > 2:
                        self.pool[self.r.choice(live)] = None
                LOG.sig['inject:drop'] += 1
                if fi:
                    LOG.sig['inject:drop_in_find_isomorph'] += 1
            else:
                gc.collect()
                LOG.sig['inject:gc'] += 1
                if fi:
                    LOG.sig['inject:gc_in_find_isomorph'] += 1
        finally:
            self.busy = False
        return None


_inj_installed = [False]


def install_injector_hooks():
    if _inj_installed[0]:
        return
    m = sys.monitoring
    m.use_tool_id(TOOL, 'vmon-injector')
    bm = _bm[0]

    def cb(code, line):
        inj = _state['inj']
        if inj is not None:
            return inj.on_line(code, line)
        return None
    m.register_callback(TOOL, m.events.LINE, cb)
    NT = bm.BDDNonTerminalNode
    funcs = [_orig['new']]
    for name in ('find_isomorph', 'apply', 'compute', 'cache_restrict',
                 'compute_restrict', 'BDDsons_and_BDD', 'BDD_and_BDDsons',
                 'BDDsons_and_BDDsons'):
        f = getattr(bm, name, None)
        if f is None:
            # private helper renamed/removed by a refactoring: inject at the
            # remaining sites; requirements naming it are waived
            LOG.counters['internal_hooks_unavailable'] += 1
            LOG.notes.append('injector: BDD.%s not found' % name)
        else:
            funcs.append(f)
    for cls, name in ((NT, '__reset__'), (bm.BDDNode, '__reset__'),
                      (NT, '__invert__'), (bm.BDDTerminalNode, '__invert__')):
        f = cls.__dict__.get(name)
        if f is not None:
            funcs.append(f)
    for f in funcs:
        code = getattr(f, '__code__', None)
        if code is not None:
            m.set_local_events(TOOL, code, m.events.LINE)
    _inj_installed[0] = True


_orig = {}


def attach():
    def do():
        import pyModelChecking.BDD   # noqa
        bm = sys.modules['pyModelChecking.BDD.BDD']
        _bm[0] = bm
        NT = bm.BDDNonTerminalNode
        orig = NT.__dict__['__new__']
        if isinstance(orig, staticmethod):
            orig = orig.__func__
        _orig['new'] = orig
        NT.__new__ = staticmethod(_wrap_new(orig, NT))
        install_injector_hooks()
        return True
    return mon.attach_once('c16', do)


# ---- workload ----

class Cell(object):
    """Node of a planted garbage cycle."""
    __slots__ = ('other', 'payload', '__weakref__')


def plant_cycle(objs):
    a, b = Cell(), Cell()
    a.other, b.other = b, a
    a.payload = list(objs)
    b.payload = None
    return a


def random_expr_text(r, vs, depth):
    if depth == 0 or r.random() < 0.2:
        return r.choice(vs)
    k = r.random()
    if k < 0.25:
        return '~(%s)' % random_expr_text(r, vs, depth - 1)
    op = r.choice([' & ', ' | '])
    return '(%s)%s(%s)' % (random_expr_text(r, vs, depth - 1), op,
                           random_expr_text(r, vs, depth - 1))


def canon_check(pool, order, where):
    live = [o for o in pool if o is not None]
    tts = [refbool.tt_of_node(o.root, order) for o in live]
    for i in range(len(live)):
        for j in range(i, len(live)):
            LOG.hit('c16.canon')
            a, b = live[i], live[j]
            same_fn = tts[i] == tts[j]
            try:
                eq = (a == b)
                eq2 = (b == a)
            except Exception as e:
                eq = eq2 = 'raised ' + mon.fmt_exc(e)
            ident = a.root is b.root
            if not (eq is same_fn and eq2 is same_fn and ident is same_fn):
                LOG.violation('c16.canon', PROP,
                              {'where': where, 'order': order,
                               'a': str(a.root), 'b': str(b.root),
                               'replay': _replay_info()},
                              {'a==b': eq, 'b==a': eq2,
                               'same_root': ident, 'same_function': same_fn},
                              'all four agree',
                              note='equal functions without a shared root'
                              if same_fn else
                              'different functions compare equal')


def history(ctx, hid, steps, inject=True):
    from pyModelChecking.BDD import OBDD
    r = gen.rng(ctx.seed, PROP, hid)
    _state['hist'] = hid
    _state['created'] = 0
    nv = r.randint(2, 4)
    vs = ['a', 'b', 'c', 'd'][:nv]
    order = list(vs)
    r.shuffle(order)
    pool = [None] * 40
    cycles = []
    inj = Injector('%s/%s/%s' % (ctx.seed, hid, 'inj'), pool, cycles,
                   pdrop=r.choice([0.0, 0.01, 0.03, 0.08]) if inject else 0,
                   pgc=r.choice([0.0, 0.005, 0.02]) if inject else 0)
    _state['inj'] = inj
    before_dead = LOG.counters['nodes_died']

    def pick():
        live = [o for o in pool if o is not None]
        return r.choice(live) if live else None

    def put(o):
        pool[r.randrange(len(pool))] = o

    def died(_):
        LOG.counters['nodes_died'] += 1
    try:
        for step in range(steps):
            k = r.random()
            inj.enabled = True
            try:
                if k < 0.22 or pick() is None:
                    LOG.sig['step:build'] += 1
                    put(OBDD(random_expr_text(r, vs, r.randint(1, 4)),
                             list(order)))
                elif k < 0.5:
                    a, b = pick(), pick()
                    op = r.choice(['and', 'or', 'xor'])
                    LOG.sig['step:' + op] += 1
                    put(a & b if op == 'and' else
                        (a | b if op == 'or' else a ^ b))
                elif k < 0.6:
                    LOG.sig['step:invert'] += 1
                    put(~pick())
                elif k < 0.7:
                    LOG.sig['step:restrict'] += 1
                    put(pick().restrict(r.choice(vs), r.random() < 0.5))
                elif k < 0.85:
                    LOG.sig['step:drop'] += 1
                    pool[r.randrange(len(pool))] = None
                elif k < 0.93:
                    LOG.sig['step:cycle'] += 1
                    objs = [pick() for _ in range(r.randint(1, 3))]
                    # move them from the pool into a garbage cycle: the
                    # cycle keeps them alive until a collection happens
                    for i, o in enumerate(pool):
                        if any(o is x for x in objs):
                            pool[i] = None
                    c = plant_cycle(objs)
                    if r.random() < 0.5:
                        cycles.append(c)       # the injector may drop it
                    del c, objs
                else:
                    LOG.sig['step:gc'] += 1
                    gc.collect()
            finally:
                inj.enabled = False
            # track deaths of a few roots
            o = pick()
            if o is not None and type(o.root).__name__ == \
                    'BDDNonTerminalNode' and step % 7 == 0:
                try:
                    weakref.finalize(o.root, died, None)
                except TypeError:
                    pass
            if step % 25 == 24:
                a = b = o = None
                census('history %d step %d' % (hid, step))
                canon_check(pool, order, 'history %d step %d' % (hid, step))
        a = b = o = None
        census('history %d end' % hid)
        canon_check(pool, order, 'history %d end' % hid)
    finally:
        _state['inj'] = None
    if LOG.counters['nodes_died'] > before_dead:
        LOG.sig['died'] += 1
    LOG.counters['histories'] += 1
    LOG.nontrivial_extra += LOG.counters.pop('nontrivial_new', 0)
    if hid % 16 == 0:
        LOG.sample({'history': hid, 'steps': steps, 'order': order,
                    'injector': inj.describe(),
                    'example_ops': ['build', '&', '|', '^', '~', 'restrict',
                                    'drop', 'cycle', 'gc']})
    # drop everything, collect: the heap must drain
    for i in range(len(pool)):
        pool[i] = None
    del cycles[:]
    gc.collect()


def pairs_exhaustive(ctx):
    """All ordered pairs of 3-variable functions built one after the other,
    in both orders, with the first dropped/kept: equal functions share roots
    whatever the creation order."""
    from pyModelChecking.BDD import OBDD
    V = ['a', 'b', 'c']
    n = 0
    for ta in range(256):
        if not ctx.mine(ta):
            continue
        for tb in range(0, 256, 1 if not ctx.quick else 16):
            order = list(itertools.permutations(V))[(ta + tb) % 6]
            A = OBDD(refbool.expr_of_tt(ta, V, ta % 3), list(order))
            B = OBDD(refbool.expr_of_tt(tb, V, 2 - tb % 3), list(order))
            C = OBDD(refbool.expr_of_tt(ta & tb, V, 0), list(order))
            D = A & B
            LOG.hit('c16.canon')
            if not (D == C and D.root is C.root):
                LOG.violation('c16.canon', PROP,
                              {'tt_A': ta, 'tt_B': tb, 'order': list(order)},
                              {'A&B': str(D), 'direct': str(C)},
                              'one shared root',
                              note='A & B and the directly built conjunction '
                                   'do not share a root')
            n += 1
        if ta % 32 == ctx.shard:
            census('pairs %d' % ta)


def run(ctx):
    attach()
    nh = 160 if ctx.quick else 2400
    steps = 300 if ctx.quick else 1500
    for h in range(nh):
        if ctx.mine(h):
            history(ctx, h, steps, inject=(h % 4 != 3))
    pairs_exhaustive(ctx)
    LOG.nontrivial_extra += LOG.counters.pop('nontrivial_new', 0)
    LOG.counters.pop('census_live_nodes_max', None)


def replay(ctx, rep):
    attach()
    c = rep['case']
    info = c.get('replay') or {}
    hid = info.get('history', c.get('history'))
    if hid is not None:
        history(ctx, hid, 300 if ctx.quick else 1500, inject=(hid % 4 != 3))
    else:
        pairs_exhaustive(ctx)
