"""Syntactic classifier of operator trees: which logics does a tree belong to.

Kinds: 'PL', 'CTL.state', 'CTL.path', 'LTL.path', 'LTL.state', 'CTLS.state',
'CTLS.path'.  Written from the documented definitions of the logics, not from
the repository's class lattice.
"""

from .neutral import TEMPORAL, QUANT, BOOLEAN, ARITY

_memo = {}


def well_formed(t):
    op = t[0]
    if op == 'ap':
        return len(t) == 2 and isinstance(t[1], str)
    if op == 'bool':
        return len(t) == 2 and isinstance(t[1], bool)
    if op in ('or', 'and'):
        return len(t) >= 3 and all(well_formed(c) for c in t[1:])
    if op in ARITY:
        return len(t) == 1 + ARITY[op] and all(well_formed(c) for c in t[1:])
    return False


def kinds(t):
    """frozenset of kinds the (well-formed) tree belongs to."""
    r = _memo.get(t)
    if r is not None:
        return r
    op = t[0]
    if op in ('ap', 'bool'):
        r = frozenset(['PL', 'CTL.state', 'LTL.path', 'CTLS.state',
                       'CTLS.path'])
    else:
        ks = [kinds(c) for c in t[1:]]

        def allk(k):
            return all(k in x for x in ks)
        out = set()
        if op in BOOLEAN:
            for k in ('PL', 'CTL.state', 'LTL.path', 'CTLS.state',
                      'CTLS.path'):
                if allk(k):
                    out.add(k)
        elif op in TEMPORAL:
            if allk('CTL.state'):
                out.add('CTL.path')
            if allk('LTL.path'):
                out.add('LTL.path')
            if allk('CTLS.path'):
                out.add('CTLS.path')
        elif op in QUANT:
            if allk('CTL.path'):
                out.add('CTL.state')
            if op == 'A' and allk('LTL.path'):
                out.add('LTL.state')
            if allk('CTLS.path'):
                out.add('CTLS.state')
                out.add('CTLS.path')
        r = frozenset(out)
    if len(_memo) < 2000000:
        _memo[t] = r
    return r


def in_language(t, langname):
    """Is t a formula (state or path) of the named language module."""
    k = kinds(t)
    if langname == 'PL':
        return 'PL' in k
    if langname == 'CTL':
        return 'CTL.state' in k or 'CTL.path' in k
    if langname == 'LTL':
        return 'LTL.path' in k or 'LTL.state' in k
    if langname == 'CTLS':
        return 'CTLS.path' in k
    raise ValueError(langname)


def checkable(t, langname):
    """Is t something <langname>.modelcheck must answer (a state formula of
    that logic)."""
    k = kinds(t)
    return {'CTL': 'CTL.state', 'LTL': 'LTL.state',
            'CTLS': 'CTLS.state'}[langname] in k
