"""Helpers shared by the model-checking workloads: turn neutral cases into
calls on the real API in several presentation styles."""

import sys

from .neutral import build, lang, make_kripke, tree_of

TEXT_TREES = {}      # text passed to a modelcheck -> (logic, tree it denotes)

STYLES = ('obj', 'raw', 'text', 'ctls_obj')


def text_of(logic, t):
    """Concrete syntax of tree t for the parser of `logic`, produced by the
    harness (not by the repository's printer): fully parenthesised."""
    op = t[0]
    if op == 'ap':
        return t[1]
    if op == 'bool':
        return 'true' if t[1] else 'false'
    if op == 'not':
        return '(not %s)' % text_of(logic, t[1])
    if op in ('or', 'and'):
        return '(' + (' %s ' % op).join(text_of(logic, c)
                                        for c in t[1:]) + ')'
    if op == 'imply':
        return '(%s --> %s)' % (text_of(logic, t[1]), text_of(logic, t[2]))
    if op in ('U', 'R'):
        return '(%s %s %s)' % (text_of(logic, t[1]), op,
                               text_of(logic, t[2]))
    if op in ('A', 'E'):
        return '%s %s' % (op, text_of(logic, t[1]))
    # X F G
    return '(%s %s)' % (op, text_of(logic, t[1]))


def fancy_text(logic, t, r):
    """Like text_of but with operator synonyms (~ | &), irregular blanks and
    redundant parentheses around atoms; registers the tree it denotes."""
    def ws():
        return r.choice([' ', ' ', '  ', '\t', ' \n ', '\r\n', ' \f '])

    def rec(t):
        op = t[0]
        if op == 'ap':
            return '(%s)' % t[1] if r.random() < 0.15 else t[1]
        if op == 'bool':
            return 'true' if t[1] else 'false'
        if op == 'not':
            return '(%s%s%s)' % (r.choice(['not', '~']), ws(), rec(t[1]))
        if op in ('or', 'and'):
            sym = r.choice({'or': ['or', '|'], 'and': ['and', '&']}[op])
            return '(' + (ws() + sym + ws()).join(rec(c) for c in t[1:]) + ')'
        if op == 'imply':
            return '(%s%s-->%s%s)' % (rec(t[1]), ws(), ws(), rec(t[2]))
        if op in ('U', 'R'):
            return '(%s%s%s%s%s)' % (rec(t[1]), ws(), op, ws(), rec(t[2]))
        if op in ('A', 'E'):
            return '%s%s%s' % (op, ws(), rec(t[1]))
        return '(%s%s%s)' % (op, ws(), rec(t[1]))
    s = rec(t)
    TEXT_TREES[s] = t
    return s


def formula_arg(logic, t, style):
    """The object/text to hand to <logic>.modelcheck for tree t."""
    if style == 'text':
        s = text_of(logic, t)
        TEXT_TREES[s] = t
        return s
    if style == 'raw':
        return build(lang(logic), t, raw_leaves=True)
    if style == 'ctls_obj' and logic == 'CTL':
        return build(lang('CTLS'), t)
    return build(lang(logic), t)


def kripke_of(nk, names=None):
    return make_kripke(nk.n, nk.succ, nk.labels, names)


def tree_for_call(c):
    """Tree denoted by the formula argument of a recorded call."""
    if c.text is not None:
        return TEXT_TREES.get(c.text)
    return c.tree


def to_tuple(x):
    if isinstance(x, list):
        return tuple(to_tuple(y) for y in x)
    return x


def nk_from_json(j, real_names=False):
    from .neutral import NK
    n = len(j['states'])
    succ = [0] * n
    for a, b in j['R']:
        succ[a] |= 1 << b
    labels = []
    lr = j.get('L_repr', {})
    for i in range(n):
        if str(i) in lr:
            labels.append(frozenset(eval(x) for x in lr[str(i)]))
        else:
            labels.append(frozenset(j['L'].get(str(i), ())))
    names = range(n)
    if real_names:
        try:
            names = [eval(x) for x in j['states']]
        except Exception:
            names = range(n)
    return NK(names, succ, labels)


def replay_mc(case):
    """Re-execute a recorded modelcheck case on integer-named states."""
    logic = case['logic']
    nk = nk_from_json(case['K'])
    K = kripke_of(nk)
    mc = lang(logic).modelcheck
    if case.get('text') is not None:
        f = case['text']
        if case.get('formula') is not None:
            TEXT_TREES[f] = to_tuple(case['formula'])
    else:
        f = build(lang(logic), to_tuple(case['formula']))
    F = case.get('F')
    if isinstance(F, list):
        F = [set(eval(x) for x in P) if isinstance(P, list) else eval(P)
             for P in F]
    try:
        return mc(K, f, F=F)
    except Exception:
        return None       # the call's outcome is judged by the monitors
