"""Semantic equivalence oracle for formula trees (used by C05).

State formulas are compared on a fixed panel of structures with the reference
semantics; quantifier-free path formulas on every lasso word over 2^{p,q,r'}
up to a length bound; path formulas containing quantifiers on every lasso of
bounded length inside the panel structures.
"""

import itertools

from . import refsem, pathsem, gen, reflang
from .neutral import atoms_of, count_ops, QUANT, NK

_panel = {}
_words = {}
_cache = {}


def panel(size, seed=0):
    p = _panel.get((size, seed))
    if p is None:
        r = gen.rng(seed, 'equiv', 'panel')
        reps1 = list(gen.representatives(1))
        reps2 = list(gen.representatives(2))
        reps3 = list(gen.representatives(3))
        n2 = min(len(reps2), max(6, size // 3))
        n3 = max(0, size - len(reps1) - n2)
        p = reps1 + r.sample(reps2, n2) + r.sample(reps3, n3)
        _panel[(size, seed)] = p
    return p


def words(atoms, maxlen):
    key = (tuple(sorted(atoms)), maxlen)
    w = _words.get(key)
    if w is None:
        atoms = sorted(atoms)
        letters = [frozenset(a for i, a in enumerate(atoms) if m >> i & 1)
                   for m in range(1 << len(atoms))]
        w = pathsem.all_words(letters, maxlen)
        _words[key] = w
    return w


def _rename_to_pq(t1, t2):
    """Map the atoms of both trees onto p, q, r (panel structures are
    labelled with p, q only -> at most 2 atoms for state formulas)."""
    atoms = sorted(atoms_of(t1) | atoms_of(t2))
    return atoms


def equivalent(t1, t2, size=24, maxlen=4):
    """(verdict, witness).  verdict True/False, or None when the pair is
    outside what this oracle can decide (too many atoms)."""
    key = (t1, t2, size, maxlen)
    r = _cache.get(key)
    if r is not None:
        return r
    r = _equivalent(t1, t2, size, maxlen)
    if len(_cache) < 200000:
        _cache[key] = r
    return r


def _equivalent(t1, t2, size, maxlen):
    from .neutral import rename_atoms
    atoms = sorted(atoms_of(t1) | atoms_of(t2))
    if len(atoms) > 2:
        # rename onto p,q is impossible without merging atoms
        if len(atoms) > 3:
            return None, 'more than 3 atoms'
    names = ['p', 'q', 'r'][:len(atoms)]
    m = dict(zip(atoms, names))
    a = rename_atoms(t1, m)
    b = rename_atoms(t2, m)
    s1 = refsem.is_state_tree(a)
    s2 = refsem.is_state_tree(b)
    if s1 and s2:
        if len(atoms) > 2:
            return None, 'state formula over 3 atoms'
        for nk in panel(size):
            S = refsem.Star(nk, cap_nodes=1 << 13)
            try:
                x, y = S.sat(a), S.sat(b)
            except refsem.RefSkip:
                continue
            if x != y:
                return False, {'K': nk.to_json(), 'left': x, 'right': y}
        return True, None
    hasq = count_ops(a, QUANT) + count_ops(b, QUANT) > 0
    if not hasq:
        for (u, v) in words(names, maxlen if len(names) <= 2 else 3):
            x = pathsem.holds_on_lasso(a, u, v, pathsem.word_leaf)
            y = pathsem.holds_on_lasso(b, u, v, pathsem.word_leaf)
            if x != y:
                return False, {'u': [sorted(l) for l in u],
                               'v': [sorted(l) for l in v],
                               'left': x, 'right': y}
        return True, None
    if len(atoms) > 2:
        return None, 'quantified path formula over 3 atoms'
    for nk in panel(min(size, 16)):
        S = refsem.Star(nk, cap_nodes=1 << 13)

        def leaf(t, s, S=S):
            return bool(S.sat(t) >> s & 1)
        try:
            for s in range(nk.n):
                for (u, v) in pathsem.all_lassos_of(nk, s, 4):
                    x = pathsem.holds_on_lasso(a, u, v, leaf)
                    y = pathsem.holds_on_lasso(b, u, v, leaf)
                    if x != y:
                        return False, {'K': nk.to_json(), 'u': u, 'v': v,
                                       'left': x, 'right': y}
        except refsem.RefSkip:
            continue
    return True, None
