"""Independent recognisers for the four documented formula grammars.

The grammars below were transcribed by hand from the documented grammar text
(the `grammar` attribute shown in the manual for PL, and the analogous CTL*,
CTL and LTL ones) -- they are NOT read from Parser.grammar at run time, which
a change to the repository could alter.  Recognition is memoised top-down
span parsing over token sequences (the grammars have no left recursion).

Token types: 'true' 'false' '(' ')' 'not' 'or' 'and' '-->' 'A' 'E' 'X' 'F'
'G' 'U' 'R' 'ATOM'.
"""

import functools

# production = tuple of symbols; symbol 'x+' (with helper) is expressed through
# explicit helper nonterminals below
G_PL = {
    'formula': [('b',)],
    's': [('true',), ('false',), ('ATOM',), ('(', 's', ')')],
    'u': [('not', 'u'), ('(', 'b', ')'), ('s',)],
    'b': [('u',), ('u', 'ors'), ('u', 'ands'), ('u', '-->', 'u')],
    'ors': [('or', 'u'), ('or', 'u', 'ors')],
    'ands': [('and', 'u'), ('and', 'u', 'ands')],
}
G_CTLS = {
    'formula': [('p',)],
    's': [('true',), ('false',), ('ATOM',), ('A', 'u'), ('E', 'u'),
          ('(', 's', ')')],
    'u': [('X', 'u'), ('F', 'u'), ('G', 'u'), ('not', 'u'), ('(', 'p', ')'),
          ('s',)],
    'p': [('u',), ('u', 'ors'), ('u', 'ands'), ('u', '-->', 'u'),
          ('u', 'U', 'u'), ('u', 'R', 'u')],
    'ors': [('or', 'u'), ('or', 'u', 'ors')],
    'ands': [('and', 'u'), ('and', 'u', 'ands')],
}
G_CTL = {
    'formula': [('p',), ('u',)],
    's': [('true',), ('false',), ('ATOM',), ('A', 'p'), ('E', 'p'),
          ('not', 's'), ('(', 'u', ')')],
    'u': [('s',), ('s', 'ors'), ('s', 'ands'), ('s', '-->', 's')],
    'p': [('X', 's'), ('F', 's'), ('G', 's'), ('s', 'U', 's'),
          ('s', 'R', 's'), ('(', 'p', ')')],
    'ors': [('or', 's'), ('or', 's', 'ors')],
    'ands': [('and', 's'), ('and', 's', 'ands')],
}
G_LTL = {
    'formula': [('s',), ('p',)],
    's': [('A', 'u')],
    'p': [('u', 'ors'), ('u', 'ands'), ('u', '-->', 'u'), ('u', 'U', 'u'),
          ('u', 'R', 'u'), ('u',)],
    'u': [('true',), ('false',), ('ATOM',), ('(', 'p', ')'), ('not', 'u'),
          ('X', 'u'), ('F', 'u'), ('G', 'u')],
    'ors': [('or', 'u'), ('or', 'u', 'ors')],
    'ands': [('and', 'u'), ('and', 'u', 'ands')],
}
GRAMMARS = {'PL': G_PL, 'CTLS': G_CTLS, 'CTL': G_CTL, 'LTL': G_LTL}
TERMINALS = ('true', 'false', '(', ')', 'not', 'or', 'and', '-->', 'A', 'E',
             'X', 'F', 'G', 'U', 'R', 'ATOM')
# PL's lexer knows no temporal keywords: A, E, X, ... are ordinary
# identifiers there
KEYWORDS = {
    'PL': ('true', 'false', 'not', 'or', 'and'),
    'CTLS': ('true', 'false', 'not', 'or', 'and', 'A', 'E', 'X', 'F', 'G',
             'U', 'R'),
    'CTL': ('true', 'false', 'not', 'or', 'and', 'A', 'E', 'X', 'F', 'G',
            'U', 'R'),
    'LTL': ('true', 'false', 'not', 'or', 'and', 'A', 'X', 'F', 'G', 'U',
            'R'),
}


def token_types(logic, tokens):
    """Map concrete tokens (strings) to the SETS of token types they can have
    in `logic`.  The documented grammars define atoms by the regular
    expression [a-zA-Z_][a-zA-Z_0-9]*, which the reserved words match too: a
    word such as R or true can be read as the keyword or as an atom (the
    Lark parsers resolve this by context).  Demanding that reserved words
    are never atoms would be stricter than the documented grammar."""
    out = []
    kw = KEYWORDS[logic]
    for t in tokens:
        if t in ('(', ')', '-->'):
            out.append(frozenset([t]))
        elif t == '~':
            out.append(frozenset(['not']))
        elif t == '|':
            out.append(frozenset(['or']))
        elif t == '&':
            out.append(frozenset(['and']))
        elif t.startswith('"'):
            out.append(frozenset(['ATOM']))
        elif t in kw:
            out.append(frozenset([t, 'ATOM']))
        else:
            out.append(frozenset(['ATOM']))
    return tuple(out)


def derivable(logic, types):
    """Is the token-type sequence derivable from `formula` in the grammar."""
    G = GRAMMARS[logic]
    n = len(types)

    @functools.lru_cache(maxsize=None)
    def nt(sym, i, j):
        if sym not in G:
            return j == i + 1 and i < n and sym in types[i]
        for prod in G[sym]:
            if seq(prod, i, j):
                return True
        return False

    @functools.lru_cache(maxsize=None)
    def seq(prod, i, j):
        if not prod:
            return i == j
        if len(prod) == 1:
            return nt(prod[0], i, j)
        head = prod[0]
        rest = prod[1:]
        minrest = len(rest)
        if head not in G:
            return i < j and head in types[i] and seq(rest, i + 1, j)
        for k in range(i + 1, j - minrest + 1):
            if nt(head, i, k) and seq(rest, k, j):
                return True
        return False

    if n == 0:
        return False
    return nt('formula', 0, n)


def random_sentence(r, logic, depth=4, atoms=('p', 'q', 'zeta')):
    """A random derivation of `formula` as a list of concrete tokens."""
    G = GRAMMARS[logic]

    def expand(sym, d):
        if sym not in G:
            if sym == 'ATOM':
                if r.random() < 0.12:
                    return [r.choice(['"quoted atom"', '"A"', '"x y"',
                                      '"not"', '"p"'])]
                return [r.choice(atoms)]
            if sym == 'not' and r.random() < 0.2:
                return ['~']
            if sym == 'or' and r.random() < 0.2:
                return ['|']
            if sym == 'and' and r.random() < 0.2:
                return ['&']
            return [sym]
        prods = G[sym]
        if d <= 0:
            # prefer the shortest productions to terminate
            prods = sorted(prods, key=len)[:2]
        prod = r.choice(prods)
        out = []
        for s in prod:
            out.extend(expand(s, d - 1))
        return out
    for _ in range(20):
        toks = expand('formula', depth)
        if len(toks) <= 40:
            return toks
    return toks[:1]


def render(r, tokens):
    """Concrete string: tokens separated by blanks (varied amounts, none
    where that cannot merge two tokens)."""
    out = []
    for i, t in enumerate(tokens):
        if i:
            prev = tokens[i - 1]
            glue = prev in ('(', ')', '~', '|', '&', '-->') or \
                t in ('(', ')', '~', '|', '&', '-->') or \
                (prev.startswith('"') and not t[0].isalnum() and t[0] != '_'
                 and not t.startswith('"')) or \
                (t.startswith('"') and not prev[-1].isalnum()
                 and prev[-1] != '_' and not prev.startswith('"'))
            if glue and r.random() < 0.5:
                pass
            else:
                out.append(r.choice([' ', ' ', '  ', '\t', ' \n ']))
        out.append(t)
    return ''.join(out)
