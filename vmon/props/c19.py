"""C19 -- every well-formed query returns a fresh set of the structure's own
states.

Deciding monitors on every top-level modelcheck call (F=None) whose formula is
a state formula of the called logic and whose structure is a Kripke:
 c19.returns   no exception; the result is a set; every element is a state
 c19.fresh     (relation over two calls) after the harness mutated the first
               result (add/clear/discard), a repeated call returns what the
               first call returned before the mutation; the first result is
               not an alias of any label set / successor set of K
Exactness is not judged here (C01-C03 do that).
"""

import gc

from .. import mon, mcwrap, reflang, gen, mcwork
from ..mon import LOG
from ..neutral import show, NK, build, lang, make_kripke, tree_of

PROP = 'C19'

CONFIG = {
    'technique': ('runtime monitor: post-condition on every modelcheck return '
                  '(type, membership, no exception) + mutate-and-repeat '
                  'relation monitor, under heterogeneous state/label/atom '
                  'shapes'),
    'level_text': ('Every observed top-level modelcheck call on structures '
                   'with string/tuple/frozenset/mixed states, labels holding '
                   'non-strings and operator/fresh-atom look-alikes, atoms '
                   'absent from the structure, quoted atoms and formulas '
                   'nested to depth 100 must return a set of states; each '
                   'result is then mutated and the call repeated.'
                   ' Also: single-operator chains to depth 100, the same queries'
                   ' under fairness constraints (CTL/CTL* without release), atoms'
                   ' containing backslashes, labels spelling fresh-atom names.'),
    'level_note': ('Trusted base: isinstance/membership checks in '
                   'vmon/props/c19.py. Exactness of the answers is out of '
                   'scope here. States never alias under == (no 0/False, '
                   '1/True/1.0 mixes) and None is not used as a state.'),
    'deciding': ['c19.returns', 'c19.fresh'],
    'shards': {'quick': 16, 'thorough': 16},
    'hashseeds': {'quick': 2, 'thorough': 4},
    'min_evals': {'quick': {'c19.returns': 8000, 'c19.fresh': 4000},
                  'thorough': {'c19.returns': 150000}},
    'must_sig': ['states:mixed', 'states:str', 'states:tuple',
                 'states:frozenset', 'labels:nonstring', 'labels:lookalike',
                 'atoms:absent', 'atoms:quoted', 'depth:>=50', 'logic:CTL',
                 'logic:LTL', 'logic:CTLS', 'ctls:fresh_atom_collision',
                 'labels:spell_fresh_atoms', 'chain:AG', 'chain:EU', 'with_F',
                 'chain:not'],
    'rule': ('cases = (structure with heterogeneous state names / label '
             'values, formula, logic, style); generated from seeded random '
             'structures (<=8 states) renamed through 6 state-naming schemes, '
             'labels drawn from ordinary atoms, non-strings and look-alikes '
             '("not p", "(p or q)", "A", "true", "fair", "[A(F(p))]"), '
             'formulas over present and absent atoms incl. quoted atoms and '
             'nesting to depth 100. non-trivial = the structure has >=2 '
             'states and non-int state names or non-string/look-alike '
             'labels, or the formula has depth >=50 or a quoted/absent atom; '
             'distinct by digest of (structure, formula, logic)'),
    'exhaustive': {'quick': False, 'thorough': False},
    'assumptions': ['formulas are state formulas of the called logic and '
                    'structures are total (guaranteed by Kripke)'],
}

LOOKALIKES = ['not p', '(p or q)', 'A', 'true', 'fair', 'fair0', '[A(F(p))]',
              '[[A(F(p))](0)]', 'E', 'X', 'p U q', ' ', 'p ', '-->',
              "p'", '\\users\\bob', 'a\\b', '\\x', 'tab\\t', '\\N{dash}',
              'caf\u00e9', '']
NONSTRINGS = [1, 0, ('t', 1), frozenset(['z']), 3.5, None, True]

NAMERS = {
    'int': lambda i: i + 10,
    'str': lambda i: 'state_%d' % i,
    'tuple': lambda i: (i, ('nested', i)),
    'frozenset': lambda i: frozenset([i + 100, 'k%d' % i]),
    'mixed': lambda i: [10, 'eleven', (12,), frozenset([13]), 14.5,
                        'fifteen', ('x', 16), 17, 'p'][i],
    'formula_like': lambda i: ['p', 'q', 'not p', '(p or q)', 'true',
                               'A(F(p))', '[A(F(p))]', 'fair', 'E'][i],
}


def _has_R(t):
    if t[0] in ('ap', 'bool'):
        return False
    return t[0] == 'R' or any(_has_R(x) for x in t[1:])


def judge(c):
    if c.nested or c.nk is None:
        return
    t = c.denoted()
    if c.F is not None:
        # with fairness constraints only the part of this property that the
        # known fairness findings (C15: D5, D6) leave intact is judged here:
        # CTL / CTL* queries without release operators
        if c.logic == 'LTL' or t is None or _has_R(t) or \
                c.Fmasks is None:
            LOG.counters['c19.F_call_not_judged'] += 1
            return
        LOG.sig['with_F'] += 1
    if t is None or not reflang.well_formed(t) or \
            not reflang.checkable(t, c.logic):
        LOG.counters['c19.out_of_domain'] += 1
        return
    LOG.hit('c19.returns', c.site)
    LOG.sig['logic:' + c.logic] += 1
    if c.raised is not None:
        LOG.violation('c19.returns', PROP, c.case(),
                      'raised ' + mon.fmt_exc(c.raised), 'a set of states',
                      note='exception on a well-formed query',
                      extra={'tb': mon.short_tb(c.raised)})
        return
    if not isinstance(c.result, set):
        LOG.violation('c19.returns', PROP, c.case(),
                      type(c.result).__name__, 'set',
                      note='result is not a set')
        return
    if c.result_bad:
        LOG.violation('c19.returns', PROP, c.case(), c.result_bad,
                      'only states of K', note='non-state in the result')
    K = c.kripke
    for s, l in K._labels.items():
        if c.result is l:
            LOG.violation('c19.fresh', PROP, c.case(),
                          'result is the label set of %r' % (s,),
                          'a fresh set', note='aliasing')
    for s, d in K._next.items():
        if c.result is d:
            LOG.violation('c19.fresh', PROP, c.case(),
                          'result is the successor set of %r' % (s,),
                          'a fresh set', note='aliasing')


def attach():
    mcwrap.attach()
    if judge not in mcwrap.judges:
        mcwrap.judges.append(judge)


def make_structure(r):
    nk = gen.random_structure(r, 8, atoms=('p', 'q'), nmin=1)
    nm = r.choice(list(NAMERS))
    names = [NAMERS[nm](i) for i in range(nk.n)]
    LOG.sig['states:' + nm] += 1
    labels = []
    flags = set()
    for i in range(nk.n):
        l = set(nk.labels[i])
        k = r.random()
        if k < 0.3:
            l.add(r.choice(LOOKALIKES))
            flags.add('labels:lookalike')
        elif k < 0.5:
            l.add(r.choice(NONSTRINGS))
            flags.add('labels:nonstring')
        labels.append(l)
    for f in flags:
        LOG.sig[f] += 1
    nk2 = NK(names, nk.succ, [frozenset(l) for l in labels])
    K = make_kripke(nk.n, nk.succ, labels, names)
    return nk2, K, nm, flags


def deep(r, logic, depth):
    """Formula of the given nesting depth that stays cheap to check (LTL's
    tableau is exponential in temporal operators, so nest Booleans)."""
    t = ('ap', r.choice(['p', 'q', 'zz']))
    for i in range(depth):
        k = i % 4
        if k == 0:
            t = ('not', t)
        elif k == 1:
            t = ('or', t, ('ap', 'q'))
        elif k == 2:
            t = ('and', ('ap', 'p'), t)
        else:
            if logic == 'CTL':
                t = ('E', ('X', t)) if i % 8 == 3 else ('A', ('G', t))
            elif logic == 'CTLS' and i % 16 == 3:
                t = ('A', ('X', t))
            else:
                t = ('imply', t, ('bool', True))
    return t


def chain(r, logic, d):
    """d nested operators of ONE kind (operator nesting depth d)."""
    t = ('ap', r.choice(['p', 'q']))
    kinds = ['not', 'or']
    if logic in ('CTL', 'CTLS'):
        kinds += ['AG', 'EU', 'EX', 'AF']
    k = r.choice(kinds)
    for i in range(d):
        if k == 'not':
            t = ('not', t)
        elif k == 'or':
            t = ('or', t, ('ap', 'q'))
        elif k == 'AG':
            t = ('A', ('G', t))
        elif k == 'AF':
            t = ('A', ('F', t))
        elif k == 'EU':
            t = ('E', ('U', ('ap', 'q'), t))
        else:
            t = ('E', ('X', t))
    LOG.sig['chain:' + k] += 1
    return t


def make_formula(r, logic):
    """(tree, flags)"""
    flags = set()
    k = r.random()
    atoms = ['p', 'q']
    if k < 0.35:
        atoms = ['p', 'absent_atom', 'q']
        flags.add('atoms:absent')
    elif k < 0.6:
        atoms = ['p', r.choice(LOOKALIKES[:21]), 'q']
        flags.add('atoms:quoted')
    if r.random() < 0.12:
        d = r.choice([50, 70, 100])
        t = deep(r, logic, d) if r.random() < 0.5 else chain(r, logic, d)
        flags.add('depth:>=50')
    elif logic == 'CTL':
        t = gen.random_ctl(r, r.randint(1, 4), atoms=atoms)
    elif logic == 'LTL':
        t = gen.random_ltl_path(r, r.randint(1, 3), atoms=atoms,
                                max_temporal=3)
    else:
        t = gen.random_ctls_state(r, r.randint(2, 4), atoms=atoms, qdepth=2)
    if logic == 'LTL':
        t = ('A', t)
    return t, flags


def text_for(logic, t):
    """Concrete syntax with every atom quoted when it is not an identifier."""
    import re
    ident = re.compile(r'^[a-zA-Z_][a-zA-Z_0-9]*$')
    reserved = {'A', 'E', 'X', 'F', 'G', 'U', 'R', 'not', 'or', 'and',
                'true', 'false'}

    def q(t):
        if t[0] == 'ap':
            n = t[1]
            if ident.match(n) and n not in reserved:
                return t
            return ('ap', '"%s"' % n)
        if t[0] == 'bool':
            return t
        return (t[0],) + tuple(q(c) for c in t[1:])
    s = mcwork.text_of(logic, q(t))
    mcwork.TEXT_TREES[s] = t
    return s


_parsers = {}


def spell_fresh_atoms(nk2, t, r):
    """Add labels that spell the names CTL* model checking would invent for
    the quantified subformulas of t."""
    from pyModelChecking import CTLS
    names = set()

    def walk(x):
        if x[0] in ('ap', 'bool'):
            return
        if x[0] in ('A', 'E'):
            try:
                f = build(CTLS, x)
                names.add('[%s]' % f)
                names.add('[[%s](0)]' % f)
                names.add('[%s]' % CTLS.A(CTLS.LNot(build(CTLS, x[1]))))
            except Exception:
                pass
        for c in x[1:]:
            walk(c)
    walk(t)
    labels = [set(l) for l in nk2.labels]
    for nm in names:
        for i in range(nk2.n):
            if r.random() < 0.4:
                labels[i].add(nm)
    LOG.sig['labels:spell_fresh_atoms'] += 1
    nk3 = NK(nk2.states, nk2.succ, [frozenset(l) for l in labels])
    return nk3, make_kripke(nk3.n, nk3.succ, labels, list(nk3.states))


def one_case(r, i):
    nk2, K, nm, sflags = make_structure(r)
    logic = ('CTL', 'LTL', 'CTLS')[i % 3]
    t, fflags = make_formula(r, logic)
    if logic == 'CTLS' and i % 2 == 0 and 'depth:>=50' not in fflags:
        nk2, K = spell_fresh_atoms(nk2, t, r)
        sflags = set(sflags) | {'labels:lookalike'}
    for f in fflags:
        LOG.sig[f] += 1
    L = lang(logic)
    style = 'text' if (i % 5 == 0 and 'depth:>=50' not in fflags and
                       not any('"' in a or a.endswith('\\') or a == ''
                               for a in
                               __import__('vmon.neutral', fromlist=['x'])
                               .atoms_of(t))) else 'obj'
    try:
        if style == 'text':
            f = text_for(logic, t)
        else:
            f = build(L, t, raw_leaves=(i % 2 == 0))
    except Exception as e:
        LOG.counters['c19.unbuildable:' + type(e).__name__] += 1
        return
    nontrivial = (nk2.n >= 2 and (nm != 'int' or sflags)) or bool(fflags)

    def call():
        if style == 'text':
            if logic not in _parsers:
                _parsers[logic] = L.Parser()
            return L.modelcheck(K, f, parser=_parsers[logic])
        return L.modelcheck(K, f)
    fresh_relation(K, call, {'K': nk2.to_json(), 'formula': t,
                             'logic': logic, 'style': style}, i % 3)
    if logic != 'LTL' and i % 4 == 1 and 'depth:>=50' not in fflags:
        # the same query under fairness constraints (answers are not judged
        # for exactness here, only for being fresh sets of states)
        sts = list(K.states())
        F = [set(r.sample(sts, r.randint(1, len(sts))))
             for _ in range(r.randint(0, 2))]

        def tr(x):
            if x[0] in ('ap', 'bool'):
                return x
            return (('U',) if x[0] == 'R' else (x[0],)) + \
                tuple(tr(y) for y in x[1:])
        t2 = tr(t)
        try:
            f2 = build(L, t2, raw_leaves=(i % 2 == 0))
            fresh_relation(K, lambda: L.modelcheck(K, f2, F=[set(P) for P
                                                              in F]),
                           {'K': nk2.to_json(), 'formula': t2,
                            'logic': logic, 'F': [sorted(map(repr, P))
                                                  for P in F]}, i % 3)
        except Exception:
            pass
    if nontrivial:
        LOG.mark_nontrivial((nk2.key(), tuple(map(repr, nk2.states)), t,
                             logic))
    if i % 701 == 0:
        LOG.sample({'K': nk2.to_json(), 'formula': show(t)[:300],
                    'logic': logic, 'style': style})


def fresh_relation(K, call, case, how):
    """call(); mutate the result; call() again: same answer, new object."""
    try:
        r1 = call()
    except Exception:
        return          # recorded by c19.returns
    if not isinstance(r1, set):
        return
    first = set(r1)
    # the caller owns the result: mutate it in every way
    if how == 0:
        r1.clear()
    elif how == 1:
        r1.add('__vmon_junk__')
        r1.add(next(iter(K.states())))
    else:
        for s in list(K.states()):
            r1.symmetric_difference_update([s])
    try:
        r2 = call()
    except Exception:
        return
    LOG.hit('c19.fresh')
    if not isinstance(r2, set) or r2 != first or r2 is r1:
        LOG.violation('c19.fresh', PROP, dict(case, mutation=how),
                      sorted(map(repr, r2)) if isinstance(r2, set)
                      else repr(r2),
                      sorted(map(repr, first)),
                      note='repeated call differs after mutating the first '
                           'result' if r2 is not r1 else
                           'the same set object was returned twice')


def collision_cases():
    from pyModelChecking import CTLS, Kripke
    LOG.sig['ctls:fresh_atom_collision'] += 1
    K = Kripke(R=[('a', 'a'), ('a', 'b'), ('b', 'b')],
               L={'a': {'p', '[A(F(p))]', 'fair'},
                  'b': {'[[A(F(p))](0)]', '[E(X([A(F(p))]))]', 7}})
    for f in (CTLS.E(CTLS.X(CTLS.A(CTLS.F('p')))),
              CTLS.A(CTLS.G(CTLS.Or(CTLS.A(CTLS.F('p')), '[A(F(p))]'))),
              CTLS.E(CTLS.And(CTLS.X(CTLS.E(CTLS.X(CTLS.A(CTLS.F('p'))))),
                              CTLS.AtomicProposition('[A(F(p))]')))):
        try:
            r1 = CTLS.modelcheck(K, f)
            r1.clear()
            CTLS.modelcheck(K, f)
        except Exception:
            pass


def run(ctx):
    attach()
    n = 6000 if ctx.quick else 120000
    for i in range(n):
        if ctx.mine(i):
            one_case(gen.rng(ctx.seed, PROP, i), i)
    if ctx.shard == 0:
        collision_cases()
    else:
        LOG.sig['ctls:fresh_atom_collision'] += 0


def replay(ctx, rep):
    attach()
    c = rep['case']
    from ..mcwork import to_tuple, nk_from_json
    nk = nk_from_json(c['K'], real_names=True)
    K = make_kripke(nk.n, nk.succ, nk.labels, list(nk.states))
    L = lang(c['logic'])
    f = build(L, to_tuple(c['formula']))
    for how in (0, 1, 2):
        fresh_relation(K, lambda: L.modelcheck(K, f), c, how)
