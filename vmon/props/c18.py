"""C18 -- expression and lambda notation build the same OBDD; printing
round-trips.

Relation monitors over the real OBDD constructor and printers (equalities are
judged with OBDD.__eq__ as the property states AND on truth tables, so that a
hash-consing failure -- C16 -- cannot masquerade as a notation failure):
 c18.lambda     OBDD('lambda v1,..,vn: e') == OBDD(e, [v1..vn])
 c18.print_root OBDD(str(o.root), o.ordering) == o
 c18.print_obdd OBDD(str(o)) == o
 c18.synonyms   and/or/not are accepted as synonyms of & | ~
 c18.errors     a variable missing from the ordering / argument list raises
                RuntimeError; non-Boolean syntax raises SyntaxError
"""

import itertools

from .. import mon, gen, refbool
from ..mon import LOG

PROP = 'C18'

CONFIG = {
    'technique': ('runtime relation monitors over the real OBDD constructor '
                  '(both notations) and printers, with truth tables from an '
                  'independent walker as second witness'),
    'level_text': ('For every generated expression (all operator trees to '
                   'depth 2 over <=3 variables, sampled depth 3-4 over <=4 '
                   'variables, all argument orders in thorough) the two '
                   'notations are compared, the resulting diagram is printed '
                   'in both forms and read back, and/or/not synonyms and the '
                   'documented error classes are checked.'
                   ' Also: flat n-ary and/or chains, non-Boolean constructs'
                   ' nested inside valid operators.'
                   ' Also (round 6): missing variables / non-Boolean operands placed beside operands that already settle an and/or chain.'),
    'level_note': ('Trusted base: vmon/refbool.py (Python evaluation of the '
                   'expression on all assignments; diagram walker).'),
    'deciding': ['c18.lambda', 'c18.print_root', 'c18.print_obdd',
                 'c18.synonyms', 'c18.errors'],
    'shards': {'quick': 16, 'thorough': 16},
    'hashseeds': {'quick': 2, 'thorough': 2},
    'min_evals': {'quick': {'c18.lambda': 25000, 'c18.print_root': 25000,
                            'c18.print_obdd': 25000, 'c18.synonyms': 10000,
                            'c18.errors': 500},
                  'thorough': {'c18.lambda': 200000}},
    'must_sig': ['print:two_branch_child', 'print:constant',
                 'lambda:unused_argument', 'err:missing_variable', 'err:after_settled_prefix', 'chain:3',
                 'text:multiline',
                 'chain:4', 'chain:5',
                 'err:syntax'],
    'rule': ('cases = (expression text, argument order); enumerated: all '
             'expressions of operator depth <=2 over {a,b,c,0,1} with & | ~ '
             '(and their and/or/not spellings); seeded random expressions '
             'of depth 3-4 over <=4 variables; each under a rotating (quick) '
             '/ every (thorough) argument order. non-trivial = the denoted '
             'function depends on >=2 variables (so the printed diagram has '
             'nested nodes); distinct by digest of (expression, order)'),
    'exhaustive': {'quick': False, 'thorough': True},
    'exhaustive_note': ('thorough: all expressions of depth <=2 over '
                        '{a,b,c,0,1} x all 6 argument orders'),
    'assumptions': ['variable names are Python identifiers other than '
                    'True/False'],
}


def enum_exprs(depth, leaves=('a', 'b', 'c', '0', '1')):
    allf = [(l,) for l in leaves]
    for d in range(depth):
        new = []
        for x in allf:
            new.append(('~', x))
        for x in allf:
            for y in allf:
                new.append(('&', x, y))
                new.append(('|', x, y))
        seen = set(allf)
        for t in new:
            if t not in seen:
                seen.add(t)
                allf.append(t)
    return allf


def text(t, style=0):
    """style 0: & | ~ ; 1: and or not ; 2: mixed."""
    if len(t) == 1:
        if style == 1 and t[0] in ('0', '1'):
            return {'0': 'False', '1': 'True'}[t[0]]
        return t[0]
    if t[0] == '~':
        op = '~' if style == 0 else 'not '
        return '%s(%s)' % (op, text(t[1], style if style != 2 else 0))
    sym = {0: {'&': ' & ', '|': ' | '}, 1: {'&': ' and ', '|': ' or '},
           2: {'&': ' and ', '|': ' | '}}[style][t[0]]
    return '(%s)%s(%s)' % (text(t[1], style), sym, text(t[2], style))


def random_expr(r, depth, vs):
    if depth == 0 or r.random() < 0.15:
        return (r.choice(list(vs) + ['0', '1'] if r.random() < 0.1
                         else list(vs)),)
    k = r.random()
    if k < 0.25:
        return ('~', random_expr(r, depth - 1, vs))
    return (r.choice('&|'), random_expr(r, depth - 1, vs),
            random_expr(r, depth - 1, vs))


def same(o1, o2, ol):
    """(eq per OBDD.__eq__, equal truth tables)"""
    return (o1 == o2), (refbool.tt_of_node(o1.root, ol) ==
                        refbool.tt_of_node(o2.root, ol))


def check_equal(monitor, case, o1, o2, ol, what):
    LOG.hit(monitor)
    try:
        eq, tteq = same(o1, o2, ol)
    except Exception as e:
        LOG.violation(monitor, PROP, case, 'comparison raised ' +
                      mon.fmt_exc(e), what, note='comparison failed')
        return
    if not (eq and tteq):
        LOG.violation(monitor, PROP, case,
                      {'==': eq, 'same_function': tteq,
                       'left': str(o1), 'right': str(o2)}, what,
                      note=('different functions' if not tteq else
                            'same function but == is False (canonicity)'),
                      extra={'finding': None})


def two_branch_child(node):
    for x in refbool.reachable(node):
        if type(x).__name__ == 'BDDNonTerminalNode':
            for ch in (x.low, x.high):
                if type(ch).__name__ == 'BDDNonTerminalNode':
                    z = [c for c in (ch.low, ch.high)
                         if not (type(c).__name__ == 'BDDTerminalNode'
                                 and not c.value)]
                    if len(z) == 2:
                        return True
    return False


def drive(t, order, i):
    from pyModelChecking.BDD import OBDD
    order = list(order)
    e = text(t, 0)
    case = {'expr': e, 'order': order}
    tt = refbool.tt_of_expr(e, order)
    try:
        o = OBDD(e, order)
    except Exception as ex:
        LOG.hit('c18.lambda')
        LOG.violation('c18.lambda', PROP, case, 'raised ' + mon.fmt_exc(ex),
                      'an OBDD', note='expression form raised')
        return
    if refbool.tt_of_node(o.root, order) != tt:
        LOG.hit('c18.lambda')
        LOG.violation('c18.lambda', PROP, case, str(o),
                      'the function of the expression',
                      note='expression form denotes another function')
        return
    # lambda form
    lam = 'lambda %s: %s' % (','.join(order), e)
    used = set(x for x in refbool.tt_support(tt, order))
    if len(used) < len(order):
        LOG.sig['lambda:unused_argument'] += 1
    try:
        ol = OBDD(lam)
        check_equal('c18.lambda', dict(case, lam=lam), ol, o, order,
                    'lambda form == expression form')
    except Exception as ex:
        LOG.hit('c18.lambda')
        LOG.violation('c18.lambda', PROP, dict(case, lam=lam),
                      'raised ' + mon.fmt_exc(ex), 'an OBDD equal to the '
                      'expression form', note='lambda form raised',
                      extra={'tb': mon.short_tb(ex)})
    # printing round trips
    if two_branch_child(o.root):
        LOG.sig['print:two_branch_child'] += 1
    if tt in (0, (1 << (1 << len(order))) - 1):
        LOG.sig['print:constant'] += 1
    sroot = str(o.root)
    try:
        o2 = OBDD(sroot, o.ordering)
        check_equal('c18.print_root', dict(case, printed=sroot), o2, o,
                    order, 'OBDD(str(o.root), o.ordering) == o')
    except Exception as ex:
        LOG.hit('c18.print_root')
        LOG.violation('c18.print_root', PROP, dict(case, printed=sroot),
                      'raised ' + mon.fmt_exc(ex), 'an OBDD equal to o',
                      note='printed root cannot be read back')
    sobdd = str(o)
    try:
        o3 = OBDD(sobdd)
        check_equal('c18.print_obdd', dict(case, printed=sobdd), o3, o,
                    order, 'OBDD(str(o)) == o')
        if i % 3 == 0:
            # print / read back twice, and the text with irregular blanks
            o5 = OBDD(str(OBDD(str(o3))))
            check_equal('c18.print_obdd', dict(case, printed='twice'), o5, o,
                        order, 'two print/parse round trips')
            spaced = e.replace('(', ' ( ').replace(')', ' )  ') \
                .replace('&', '  &\t').replace('|', ' |  ')
            spaced = spaced.lstrip()
            o6 = OBDD(spaced + '  ', list(order))
            check_equal('c18.lambda', dict(case, spaced=spaced), o6, o,
                        order, 'blanks do not matter')
            o7 = OBDD('lambda  %s :  ( %s )' % (' , '.join(order), e))
            check_equal('c18.lambda', dict(case, lam='spaced lambda'), o7, o,
                        order, 'blanks in the lambda form do not matter')
            # line breaks inside parentheses (legal Python), both spellings
            for style in (0, 1):
                ml = '(' + text(t, style).replace(' & ', ' &\n ') \
                    .replace(' | ', '\n| ').replace(' and ', ' and\n') \
                    .replace(' or ', '\nor ').replace('not ', 'not\n') + ')'
                LOG.sig['text:multiline'] += 1
                o8 = OBDD(ml, list(order))
                check_equal('c18.synonyms', dict(case, multiline=ml), o8, o,
                            order, 'line breaks inside parentheses do not '
                                   'matter')
    except Exception as ex:
        LOG.hit('c18.print_obdd')
        LOG.violation('c18.print_obdd', PROP, dict(case, printed=sobdd),
                      'raised ' + mon.fmt_exc(ex), 'an OBDD equal to o',
                      note='printed OBDD cannot be read back')
    # synonyms
    if i % 2 == 0:
        for style in (1, 2):
            e2 = text(t, style)
            try:
                o4 = OBDD(e2, order)
                check_equal('c18.synonyms', dict(case, spelled=e2), o4, o,
                            order, 'and/or/not == & | ~')
            except Exception as ex:
                LOG.hit('c18.synonyms')
                LOG.violation('c18.synonyms', PROP, dict(case, spelled=e2),
                              'raised ' + mon.fmt_exc(ex), 'an OBDD',
                              note='and/or/not spelling rejected')
    if len(used) >= 2:
        LOG.mark_nontrivial((e, tuple(order)))
    if i % 1201 == 0:
        LOG.sample({'expr': e, 'order': order, 'lambda': lam,
                    'printed': sobdd})


def chains(ctx, r, n):
    """Flat n-ary chains: Python folds `a and b and c` into ONE BoolOp with
    three operands, a shape the parenthesised generator never produces."""
    from pyModelChecking.BDD import OBDD
    vs = ['a', 'b', 'c', 'd']
    for k in range(n):
        m = r.randint(3, 5)
        ops = []
        for _ in range(m):
            v = r.choice(vs)
            x = r.random()
            if x < 0.25:
                ops.append(('not ' + v, '~' + v))
            elif x < 0.4:
                w = r.choice(vs)
                ops.append(('(%s or not %s)' % (v, w), '(%s | ~%s)' % (v, w)))
            else:
                ops.append((v, v))
        kw = r.choice(['and', 'or'])
        sym = '&' if kw == 'and' else '|'
        spelled = (' %s ' % kw).join(o[0] for o in ops)
        symbolic = (' %s ' % sym).join('(%s)' % o[1] for o in ops)
        if not ctx.mine(k):
            continue
        order = list(vs)
        r2 = gen.rng(ctx.seed, PROP, ('chain', k))
        r2.shuffle(order)
        LOG.sig['chain:%d' % m] += 1
        case = {'expr': symbolic, 'order': order, 'spelled': spelled}
        try:
            o = OBDD(symbolic, list(order))
            o2 = OBDD(spelled, list(order))
            check_equal('c18.synonyms', case, o2, o, order,
                        'n-ary and/or chain == & | chain')
            tt = refbool.tt_of_expr(symbolic, order)
            LOG.hit('c18.synonyms')
            if refbool.tt_of_node(o2.root, order) != tt:
                LOG.violation('c18.synonyms', PROP, case, str(o2),
                              'the function of the chain',
                              note='n-ary chain denotes another function')
            ol = OBDD('lambda %s: %s' % (','.join(order), spelled))
            check_equal('c18.lambda', dict(case, lam='lambda form of chain'),
                        ol, o, order, 'lambda form == expression form')
            # the chain split over lines inside one pair of parentheses, the
            # break directly after a keyword (no blank before the next name)
            ml = '(' + spelled.replace(' and ', ' and\n') \
                .replace(' or ', ' or\n').replace('not ', 'not\n') + ')'
            LOG.sig['text:multiline'] += 1
            o3 = OBDD(ml, list(order))
            check_equal('c18.synonyms', dict(case, multiline=ml), o3, o,
                        order, 'line breaks inside parentheses do not matter')
            o4 = OBDD('lambda %s: %s' % (','.join(order), ml))
            check_equal('c18.lambda', dict(case, multiline=ml,
                                           lam='multi-line lambda'),
                        o4, o, order, 'multi-line lambda form')
            LOG.mark_nontrivial((spelled, tuple(order)))
        except mon.PostBroken:
            raise
        except Exception as ex:
            LOG.hit('c18.synonyms')
            LOG.violation('c18.synonyms', PROP, case,
                          'raised ' + mon.fmt_exc(ex), 'an OBDD',
                          note='n-ary chain rejected')


BAD_SYNTAX = ['a + b', 'a < b', 'f(a)', '2', 'a if b else c', 'a == b',
              'a - b', '[a]', 'a.b', 'a * b', '-a', 'a @ b', '"a"', 'a[0]',
              'a >> b', '3 & a', 'lambda: a', 'None', 'a, b', '{a}',
              'a and 2', '~2', 'a % b', 'a // b']
BAD_TEXT = ['', 'a &', '& a', '(a', 'a b', 'a ~ b', 'a &| b', ')']


def error_cases(i):
    from pyModelChecking.BDD import OBDD
    # missing variables
    for e, order in (('a & z', ['a', 'b']), ('z', ['a']),
                     ('(a | b) & ~w', ['b', 'a', 'c']),
                     ('a and zz', ['a'])):
        for form in ('expr', 'lambda'):
            LOG.hit('c18.errors')
            LOG.sig['err:missing_variable'] += 1
            try:
                if form == 'expr':
                    OBDD(e, list(order))
                else:
                    OBDD('lambda %s: %s' % (','.join(order), e))
                got = 'built'
            except RuntimeError:
                continue
            except Exception as ex:
                got = mon.fmt_exc(ex)
            LOG.violation('c18.errors', PROP,
                          {'expr': e, 'order': order, 'form': form}, got,
                          'RuntimeError', note='missing variable')
    # every non-Boolean construct also nested inside valid operators
    nested = []
    cores = ['-a', '+a', '2', 'a + b', 'f(a)', 'a < b', 'a * b', '-1',
             'a if b else c', 'a == b', '[a]', 'a.b', '~2', '-(a & b)',
             '+(a | b)', 'a >> 1']
    ctxs = ['~%s', '~(%s)', 'not %s', 'not (%s)', '(%s) & a', 'a | (%s)',
            'a and %s', '%s or b', 'not not %s', '~~%s', 'a & ~%s',
            '(a | b) & (c | ~(%s))', 'not ~%s']
    for core in cores:
        for cx in ctxs:
            nested.append(cx % core)
    for e in BAD_SYNTAX + BAD_TEXT + nested:
        for form in ('expr', 'lambda'):
            LOG.hit('c18.errors')
            LOG.sig['err:syntax'] += 1
            try:
                if form == 'expr':
                    OBDD(e, ['a', 'b', 'c'])
                else:
                    OBDD('lambda a,b,c: %s' % e)
                got = 'built'
            except SyntaxError:
                continue
            except Exception as ex:
                got = mon.fmt_exc(ex)
            LOG.violation('c18.errors', PROP, {'expr': e, 'form': form}, got,
                          'SyntaxError', note='non-Boolean syntax',
                          extra={'finding': None})


def error_contexts():
    """A missing variable / a non-Boolean construct placed at every position
    of flat and nested and/or/&/| chains whose OTHER operands already decide
    the value (constants, a and not a, a or not a).  A parser that stops
    evaluating a chain once its value is settled, or that simplifies x & 0
    before looking at x, never validates the offending operand."""
    from pyModelChecking.BDD import OBDD
    settled = ['0', '1', 'False', 'True', 'a and not a', 'a or not a',
               '(a & ~a)', '(a | ~a)', '(a and 0)', '(b or 1)', 'not 1',
               '~0', 'a', 'not b']
    shapes = ['%(P)s and %(X)s', '%(P)s or %(X)s', '%(X)s and %(P)s',
              '%(X)s or %(P)s', '(%(P)s) & (%(X)s)', '(%(P)s) | (%(X)s)',
              '(%(X)s) & (%(P)s)', '(%(X)s) | (%(P)s)',
              '%(P)s and b and %(X)s', '%(P)s or b or %(X)s',
              'b and %(P)s and %(X)s', 'b or %(P)s or %(X)s',
              '(%(P)s and %(X)s) or b', 'b and (%(P)s or %(X)s)',
              'not (%(P)s and %(X)s)', '~((%(P)s) | (%(X)s))',
              '%(P)s and (b or %(X)s)',
              '%(P)s or (b and %(X)s)']
    bad = [('z', RuntimeError, 'missing variable'),
           ('not zz', RuntimeError, 'missing variable'),
           ('(a & z)', RuntimeError, 'missing variable'),
           ('(a + b)', SyntaxError, 'non-Boolean syntax'),
           ('2', SyntaxError, 'non-Boolean syntax'),
           ('f(a)', SyntaxError, 'non-Boolean syntax'),
           ('(-a)', SyntaxError, 'non-Boolean syntax')]
    n = 0
    for P in settled:
        for sh in shapes:
            for X, exc, what in bad:
                e = sh % {'P': P, 'X': X}
                for form in ('expr', 'lambda'):
                    if (n + (form == 'lambda')) % 3 == 2:
                        n += 1
                        continue           # two of three, alternating forms
                    n += 1
                    LOG.hit('c18.errors')
                    LOG.sig['err:after_settled_prefix'] += 1
                    try:
                        if form == 'expr':
                            o = OBDD(e, ['a', 'b', 'c'])
                        else:
                            o = OBDD('lambda a,b,c: %s' % e)
                        got = 'built %s' % o
                    except exc:
                        continue
                    except Exception as ex:
                        got = mon.fmt_exc(ex)
                    LOG.violation('c18.errors', PROP,
                                  {'expr': e, 'form': form}, got,
                                  exc.__name__,
                                  note=what + ' beside operands that already '
                                  'decide the value')


def run(ctx):
    r = gen.rng(ctx.seed, PROP, 'main')
    E2 = enum_exprs(2)
    orders = list(itertools.permutations(['a', 'b', 'c']))
    i = 0
    for t in E2:
        if ctx.mine(i):
            if ctx.quick:
                drive(t, orders[i % 6], i)
            else:
                for o in orders:
                    drive(t, o, i)
        i += 1
    NAMESETS = [['v1', 'v2', 'x_3', 'd'], ['A', 'B', 'X', 'E'],
                ['a', 'ab', 'abc', 'b'], ['true', 'false', 'TRUE', 'True_'],
                ['_', '__x', 'x1', 'x10'], ['p', 'P', 'q0', 'Q_0'],
                ['lambda_', 'not_', 'and_', 'or_']]
    nrand = 24000 if ctx.quick else 200000
    for k in range(nrand):
        V4 = NAMESETS[k % len(NAMESETS)]
        nv = r.randint(1, 4)
        vs = r.sample(V4, nv)
        t = random_expr(r, r.randint(2, 4), vs)
        order = list(vs)
        r.shuffle(order)
        if ctx.mine(k):
            drive(t, order, k)
    chains(ctx, gen.rng(ctx.seed, PROP, 'chains'), 1600 if ctx.quick
           else 30000)
    error_cases(0)
    error_contexts()
    error_contexts()


def replay(ctx, rep):
    c = rep['case']
    from pyModelChecking.BDD import OBDD
    if 'spelled' in c:
        order = c['order']
        o = OBDD(c['expr'], list(order))
        o2 = OBDD(c['spelled'], list(order))
        check_equal('c18.synonyms', c, o2, o, order, 'spelling == symbols')
        return
    if 'order' in c and 'form' not in c:
        # rebuild from text through Python's own parser is not needed: the
        # expression text itself is replayed
        e = c['expr']
        order = c['order']
        try:
            o = OBDD(e, list(order))
            for key in ('multiline', 'spaced'):
                if key in c:
                    check_equal('c18.synonyms', c, OBDD(c[key], list(order)),
                                o, order, 'layout does not matter')
        except mon.PostBroken:
            raise
        except Exception as ex:
            LOG.violation('c18.lambda', PROP, c, mon.fmt_exc(ex), 'an OBDD',
                          note='expression form raised')
            return
        lam = 'lambda %s: %s' % (','.join(order), e)
        try:
            ol = OBDD(lam)
            check_equal('c18.lambda', c, ol, o, order, 'lambda == expr')
        except mon.PostBroken:
            raise
        except Exception as ex:
            LOG.violation('c18.lambda', PROP, c, mon.fmt_exc(ex), 'an OBDD',
                          note='lambda form raised')
        o2 = OBDD(str(o.root), o.ordering)
        check_equal('c18.print_root', c, o2, o, order, 'print root')
        o3 = OBDD(str(o))
        check_equal('c18.print_obdd', c, o3, o, order, 'print obdd')
    else:
        chains(ctx, gen.rng(ctx.seed, PROP, 'chains'), 1600 if ctx.quick
           else 30000)
    error_cases(0)
    error_contexts()
