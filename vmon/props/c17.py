"""C17 -- OBDD operations compute the right function, reduced and ordered.

Post-conditions wrapped over the real OBDD methods (so they also fire for the
applications the expression parser performs while building a diagram):
 c17.and / c17.or / c17.xor / c17.invert / c17.restrict
     truth table of the result (independent diagram walker, all 2^n
     assignments) = operation applied to the operands' truth tables; the
     result diagram is ordered (every node tests a variable strictly earlier
     than its children's) and reduced (distinct children, no duplicate
     triples)
 c17.variables   variables() = set of variables reachable in the diagram
                 (and, the diagram being reduced, = the true support)
 c17.mismatch    operands with different orderings, or a variable outside
                 the ordering, raise RuntimeError
"""

import itertools

from .. import mon, gen, refbool, probes
from ..mon import LOG

PROP = 'C17'

CONFIG = {
    'technique': ('runtime post-conditions on the real OBDD operators: truth '
                  'tables by an independent diagram walker on all '
                  'assignments, structural walk for ordered/reduced'),
    'level_text': ('Every &, |, ^, ~, restrict and variables() call observed '
                   'while combining all pairs of the 256 three-variable '
                   'functions (orderings rotated; all 6 in thorough), a '
                   'seeded sample of four-variable functions under all 24 '
                   'orderings, and all (variable, value) cofactors is judged '
                   'on every assignment and for diagram shape.'
                   ' Also: sparse operands over 4-5 variables, every function of'
                   ' a 3-subset against every function of a 2-subset of four'
                   ' variables, diagrams built from raw nodes with a variable'
                   ' outside the ordering.'
                   ' Also (round 6): foreign-variable rejections while diagrams on that variable are alive under other orderings, and after they were dropped.'),
    'level_note': ('Trusted base: vmon/refbool.py (walker + truth-table '
                   'algebra on ints). Canonicity across histories is C16.'),
    'deciding': ['c17.and', 'c17.or', 'c17.xor', 'c17.invert', 'c17.restrict',
                 'c17.variables', 'c17.mismatch'],
    'shards': {'quick': 16, 'thorough': 16},
    'hashseeds': {'quick': 2, 'thorough': 2},
    'min_evals': {'quick': {'c17.and': 60000, 'c17.or': 60000,
                            'c17.xor': 30000, 'c17.invert': 5000,
                            'c17.restrict': 10000, 'c17.variables': 8000,
                            'c17.mismatch': 200},
                  'thorough': {'c17.and': 500000}},
    'must_sig': ['case:A_before_B', 'case:same_var', 'case:B_before_A',
                 'case:terminal_operand', 'restrict:var_absent',
                 'restrict:var_at_root', 'restrict:var_inside',
                 'site:pyModelChecking.BDD.OBDD:*', 'sparse:4vars', 'sparse:5vars', 'systematic:3x2_subsets'],
    'rule': ('cases = (operation, operand functions, ordering); enumerated: '
             'all 65,536 ordered pairs of the 256 Boolean functions of 3 '
             'variables for & | ^ (each pair under one ordering rotated '
             'through the 6 in quick, all 6 in thorough), all 256 for ~ and '
             'for restrict with every (variable, value); seeded 4-variable '
             'functions under all 24 orderings. non-trivial = the result is '
             'not a constant function and differs from both operands; '
             'distinct by digest of (operation, operand truth tables, '
             'ordering)'),
    'exhaustive': {'quick': True, 'thorough': True},
    'exhaustive_note': ('all pairs of 3-variable functions (one ordering per '
                        'pair in quick; all 6 orderings in thorough)'),
    'assumptions': ['operands are built by the expression parser from DNF '
                    'texts, whose own applications are monitored too'],
}

OPS = {'__and__': ('and', lambda a, b, full: a & b),
       '__or__': ('or', lambda a, b, full: a | b),
       '__xor__': ('xor', lambda a, b, full: a ^ b)}


def _olist(o):
    try:
        return o.ordering.get_list()
    except Exception:
        return None


def _shape_sig(A, B, ol):
    pos = {v: i for i, v in enumerate(ol)}
    a, b = A.root, B.root
    ta = type(a).__name__ == 'BDDTerminalNode'
    tb = type(b).__name__ == 'BDDTerminalNode'
    if ta or tb:
        return 'case:terminal_operand'
    if a.var == b.var:
        return 'case:same_var'
    return 'case:A_before_B' if pos[a.var] < pos[b.var] else 'case:B_before_A'


def _wrap_binary(name, orig):
    short, fn = OPS[name]

    def method(self, other):
        site = mon.caller_site(2)
        err = None
        res = None
        try:
            res = orig(self, other)
        except BaseException as e:
            err = e
        try:
            judge_binary(short, fn, self, other, res, err, site)
        except mon.PostBroken:
            raise
        if err is not None:
            raise err
        return res
    method.__name__ = name
    return method


def judge_binary(short, fn, A, B, res, err, site):
    ol = _olist(A)
    if ol is None or type(B).__name__ != 'OBDD':
        return
    olb = _olist(B)
    mon_name = 'c17.' + short
    if olb != ol:
        LOG.hit('c17.mismatch', site)
        if not isinstance(err, RuntimeError):
            LOG.violation('c17.mismatch', PROP,
                          {'op': short, 'orderings': [ol, olb]},
                          'returned' if err is None else mon.fmt_exc(err),
                          'RuntimeError',
                          note='different orderings were combined')
        return
    LOG.hit(mon_name, site)
    LOG.sig['site:' + site] += 1
    n = len(ol)
    if n > 6:
        LOG.skipped['c17.too_many_variables'] += 1
        return
    full = (1 << (1 << n)) - 1
    ta = refbool.tt_of_node(A.root, ol)
    tb = refbool.tt_of_node(B.root, ol)
    LOG.sig[_shape_sig(A, B, ol)] += 1
    case = {'op': short, 'ordering': ol, 'tt_A': ta, 'tt_B': tb,
            'A': str(A.root), 'B': str(B.root), 'site': site}
    if err is not None:
        LOG.violation(mon_name, PROP, case, 'raised ' + mon.fmt_exc(err),
                      'an OBDD', note='exception',
                      extra={'tb': mon.short_tb(err)})
        return
    exp = fn(ta, tb, full) & full
    judge_result(mon_name, case, res, ol, exp)
    if exp not in (0, full, ta, tb):
        LOG.mark_nontrivial((short, ta, tb, tuple(ol)))


def judge_result(mon_name, case, res, ol, exp):
    if type(res).__name__ != 'OBDD':
        LOG.violation(mon_name, PROP, case, repr(res)[:100], 'an OBDD',
                      note='result is not an OBDD')
        return
    if _olist(res) != ol:
        LOG.violation(mon_name, PROP, case, _olist(res), ol,
                      note='result has another ordering')
        return
    try:
        got = refbool.tt_of_node(res.root, ol)
    except Exception as e:
        LOG.violation(mon_name, PROP, case, 'walker failed: ' + mon.fmt_exc(e),
                      exp, note='result diagram cannot be evaluated')
        return
    if got != exp:
        LOG.violation(mon_name, PROP, case,
                      {'tt': got, 'diagram': str(res.root)}, {'tt': exp},
                      note='result denotes another function (differs on '
                           'assignments %s)' % [k for k in range(1 << len(ol))
                                                if (got ^ exp) >> k & 1][:6])
        return
    why = refbool.structure_problem(res.root, ol)
    if why:
        LOG.violation(mon_name, PROP, case, str(res.root),
                      'ordered and reduced', note=why)


def _wrap_invert(orig):
    def __invert__(self):
        site = mon.caller_site(2)
        err = None
        res = None
        try:
            res = orig(self)
        except BaseException as e:
            err = e
        ol = _olist(self)
        if ol is not None and len(ol) <= 6:
            LOG.hit('c17.invert', site)
            full = (1 << (1 << len(ol))) - 1
            ta = refbool.tt_of_node(self.root, ol)
            case = {'op': 'invert', 'ordering': ol, 'tt_A': ta,
                    'A': str(self.root), 'site': site}
            if err is not None:
                LOG.violation('c17.invert', PROP, case,
                              'raised ' + mon.fmt_exc(err), 'an OBDD',
                              note='exception')
            else:
                judge_result('c17.invert', case, res, ol, full & ~ta)
                if ta not in (0, full):
                    LOG.mark_nontrivial(('inv', ta, tuple(ol)))
        if err is not None:
            raise err
        return res
    return __invert__


def _wrap_restrict(orig):
    def restrict(self, var, value):
        site = mon.caller_site(2)
        err = None
        res = None
        try:
            res = orig(self, var, value)
        except BaseException as e:
            err = e
        ol = _olist(self)
        if ol is not None and len(ol) <= 6 and isinstance(var, str) and \
                value in (0, 1, True, False):
            LOG.hit('c17.restrict', site)
            ta = refbool.tt_of_node(self.root, ol)
            case = {'op': 'restrict', 'ordering': ol, 'tt_A': ta,
                    'A': str(self.root), 'var': var, 'value': value}
            sup = refbool.support(self.root)
            if var not in sup:
                LOG.sig['restrict:var_absent'] += 1
            elif getattr(self.root, 'var', None) == var:
                LOG.sig['restrict:var_at_root'] += 1
            else:
                LOG.sig['restrict:var_inside'] += 1
            if err is not None:
                LOG.violation('c17.restrict', PROP, case,
                              'raised ' + mon.fmt_exc(err), 'an OBDD',
                              note='exception')
            elif var in ol:
                i = ol.index(var)
                exp = 0
                for k in range(1 << len(ol)):
                    kk = (k | 1 << i) if value else (k & ~(1 << i))
                    if ta >> kk & 1:
                        exp |= 1 << k
                judge_result('c17.restrict', case, res, ol, exp)
                if type(res).__name__ == 'OBDD' and \
                        var in refbool.support(res.root):
                    LOG.violation('c17.restrict', PROP, case, str(res.root),
                                  'a diagram without ' + var,
                                  note='restricted variable still tested')
                if exp != ta and exp not in (0, (1 << (1 << len(ol))) - 1):
                    LOG.mark_nontrivial(('res', ta, var, bool(value),
                                         tuple(ol)))
            else:
                # a variable outside the ordering cannot occur in the
                # diagram: the cofactor is the function itself
                judge_result('c17.restrict', case, res, ol, ta)
        if err is not None:
            raise err
        return res
    return restrict


def _wrap_variables(orig):
    def variables(self):
        res = orig(self)
        ol = _olist(self)
        if ol is not None and len(ol) <= 6:
            LOG.hit('c17.variables')
            sup = refbool.support(self.root)
            ta = refbool.tt_of_node(self.root, ol)
            true_sup = refbool.tt_support(ta, ol)
            if not isinstance(res, set) or res != sup or res != true_sup:
                LOG.violation('c17.variables', PROP,
                              {'ordering': ol, 'A': str(self.root),
                               'tt_A': ta},
                              sorted(res) if isinstance(res, (set, list))
                              else repr(res),
                              {'reachable': sorted(sup),
                               'support': sorted(true_sup)},
                              note='variables() is not the support')
        return res
    return variables


def attach():
    def do():
        import sys
        import pyModelChecking.BDD   # noqa
        om = sys.modules['pyModelChecking.BDD.OBDD']
        bm = sys.modules['pyModelChecking.BDD.BDD']
        od = sys.modules['pyModelChecking.BDD.ordering']
        C = om.OBDD
        watch = []
        for name in OPS:
            orig = C.__dict__[name]
            setattr(C, name, _wrap_binary(name, orig))
        for name, w in (('__invert__', _wrap_invert),
                        ('restrict', _wrap_restrict),
                        ('variables', _wrap_variables)):
            orig = C.__dict__[name]
            setattr(C, name, w(orig))
        # reach probes on private helpers: skipped when a refactoring
        # removed them
        priv = [(n, getattr(bm, n, None)) for n in
                ('apply', 'compute', 'BDDsons_and_BDD', 'BDD_and_BDDsons',
                 'BDDsons_and_BDDsons', 'cache_restrict',
                 'compute_restrict')]
        priv += [('NT.__invert__',
                  bm.BDDNonTerminalNode.__dict__.get('__invert__')),
                 ('T.__invert__',
                  bm.BDDTerminalNode.__dict__.get('__invert__')),
                 ('ListOrdering.cmp', od.ListOrdering.__dict__.get('cmp')),
                 ('ListOrdering.in_order',
                  od.ListOrdering.__dict__.get('in_order'))]
        probes.watch([(n, f) for n, f in priv if f is not None])
        return True
    return mon.attach_once('c17', do)


# ---- workload ----

_cache = {}


def build_fn(OBDD, tt, variables, ordering, style=0):
    key = (tt, tuple(ordering), style)
    o = _cache.get(key)
    if o is None:
        o = OBDD(refbool.expr_of_tt(tt, variables, style), list(ordering))
        if len(_cache) < 20000:
            _cache[key] = o
    return o


def mismatch_block(k):
    from pyModelChecking.BDD import OBDD
    A = OBDD('a & b', ['a', 'b', 'c'])
    B = OBDD('a | c', ['c', 'a', 'b'])
    C = OBDD('a', ['a', 'b'])
    for x, y in ((A, B), (B, A), (A, C), (C, B)):
        for op in ('__and__', '__or__', '__xor__'):
            try:
                getattr(x, op)(y)
            except Exception:
                pass
    # a diagram (built from raw nodes) that tests a variable outside the
    # ordering, at the root and below it
    from pyModelChecking.BDD import BDDNode
    T, Fz = BDDNode(1), BDDNode(0)
    zed = BDDNode('z', Fz, T)
    raw = [(zed, ['a', 'b']),
           (BDDNode('a', zed, T), ['a', 'b']),
           (BDDNode('a', zed, T), ['b', 'a']),
           (BDDNode('a', BDDNode('b', zed, Fz), T), ['a', 'b', 'c']),
           (BDDNode('b', Fz, BDDNode('w', T, Fz)), ['c', 'b', 'a'])]
    for node, o in raw:
        LOG.hit('c17.mismatch')
        LOG.sig['mismatch:raw_node_foreign_variable'] += 1
        try:
            OBDD(node, list(o))
            got = 'built'
        except RuntimeError:
            continue
        except Exception as e:
            got = mon.fmt_exc(e)
        LOG.violation('c17.mismatch', PROP,
                      {'expr': str(node), 'ordering': o,
                       'route': 'OBDD(BDDNode, ordering)'}, got,
                      'RuntimeError',
                      note='a diagram with a variable outside the '
                           'ordering was not rejected with RuntimeError')
    # the same again while diagrams that legitimately test z / w / q
    # under OTHER orderings are alive (their nodes are shared through the
    # unique table, so anything remembered per node -- "already
    # validated", "level of this node" -- is remembered across orderings)
    import gc
    alive = [OBDD('z', ['z', 'a', 'b']), OBDD('z & a', ['a', 'z']),
             OBDD('w | z', ['w', 'z', 'a', 'b', 'c']),
             OBDD('(q & ~a) | (~q & a)', ['q', 'a']), OBDD('~w', ['w']),
             OBDD('(a & z) | b', ['a', 'b', 'z'])]
    for a in alive:
        a.restrict('a', k % 2)
        ~a
    foreign = [(a.root, o) for a in alive
               for o in (['a', 'b'], ['a', 'b', 'c'])
               if not set(a.variables()) <= set(o)]
    for node, o in raw + foreign:
        LOG.hit('c17.mismatch')
        LOG.sig['mismatch:foreign_variable_alive_elsewhere'] += 1
        try:
            OBDD(node, list(o))
            got = 'built'
        except RuntimeError:
            continue
        except Exception as e:
            got = mon.fmt_exc(e)
        LOG.violation('c17.mismatch', PROP,
                      {'expr': str(node), 'ordering': o,
                       'route': 'OBDD(BDDNode, ordering), node alive '
                                'under another ordering'}, got,
                      'RuntimeError',
                      note='a diagram with a variable outside the '
                           'ordering was not rejected with RuntimeError')
    for phase in ('alive', 'dropped'):
        if phase == 'dropped':
            del alive, foreign, a
            gc.collect()
        for expr, o in (('a & z', ['a', 'b']), ('q', ['a']),
                        ('a | (b & w)', ['b', 'a']), ('z', ['a', 'b']),
                        ('z | False', ['a', 'b']),
                        ('z & True', ['a', 'b']), ('(z & ~b) | (~z & b)', ['a', 'b']),
                        ('~z', ['b']), ('~w | a', ['a', 'c']),
                        ('(a & z) | b', ['a', 'b', 'c']),
                        ('a | (q & True)', ['a', 'b'])):
            LOG.hit('c17.mismatch')
            LOG.sig['mismatch:expr_foreign_variable:' + phase] += 1
            try:
                got = 'built %s' % OBDD(expr, list(o))
            except RuntimeError:
                continue
            except Exception as e:
                got = mon.fmt_exc(e)
            LOG.violation('c17.mismatch', PROP,
                          {'expr': expr, 'ordering': o,
                           'other_diagrams_on_that_variable': phase},
                          got, 'RuntimeError',
                          note='variable outside the ordering accepted')
    for expr, o in (('a & z', ['a', 'b']), ('q', ['a']),
                    ('a | (b & w)', ['b', 'a'])):
        LOG.hit('c17.mismatch')
        try:
            OBDD(expr, o)
            LOG.violation('c17.mismatch', PROP,
                          {'expr': expr, 'ordering': o}, 'built',
                          'RuntimeError',
                          note='variable outside the ordering accepted')
        except RuntimeError:
            pass
        except Exception as e:
            LOG.violation('c17.mismatch', PROP,
                          {'expr': expr, 'ordering': o},
                          mon.fmt_exc(e), 'RuntimeError',
                          note='wrong exception')


def run(ctx):
    attach()
    from pyModelChecking.BDD import OBDD
    r = gen.rng(ctx.seed, PROP, 'main')
    V3 = ['a', 'b', 'c']
    ords3 = list(itertools.permutations(V3))
    i = 0
    for ta in range(256):
        if not ctx.mine(ta):
            continue
        use = ords3 if not ctx.quick else [ords3[ta % 6],
                                           ords3[(ta // 6) % 6]]
        for oi, o3 in enumerate(use):
            _cache.clear()
            A = build_fn(OBDD, ta, V3, o3, style=ta % 3)
            ~A
            A.variables()
            for v in V3:
                for b in (0, 1, True, False):
                    A.restrict(v, b)
            A.restrict('zz', True)
            for tb in range(256):
                if ctx.quick and oi == 1 and tb % 4:
                    continue
                B = build_fn(OBDD, tb, V3, o3, style=(tb // 3) % 3)
                R1 = A & B
                R2 = A | B
                if tb % 8 == 0:
                    R1.variables()
                    R2.variables()
                    R2.restrict(V3[tb % 3], tb % 2)
                if ctx.quick and tb % 2:
                    continue
                A ^ B
    LOG.sample({'pair': [refbool.expr_of_tt(0b10010110, V3),
                         refbool.expr_of_tt(0b11101000, V3, 1)],
                'ordering': ['b', 'c', 'a'], 'ops': ['&', '|', '^', '~',
                                                     'restrict']})
    V4 = ['a', 'b', 'c', 'd']
    ords4 = list(itertools.permutations(V4))
    n4 = 120 if ctx.quick else 3000
    for k in range(n4):
        ta, tb = r.getrandbits(16), r.getrandbits(16)
        if not ctx.mine(k):
            continue
        for o4 in (ords4 if not ctx.quick else
                   [ords4[(k * 5 + j * 7) % 24] for j in range(6)]):
            _cache.clear()
            A = build_fn(OBDD, ta, V4, o4, style=k % 3)
            B = build_fn(OBDD, tb, V4, o4, style=(k + 1) % 3)
            A & B
            A | B
            A ^ B
            ~A
            (~A) | B
            for v in V4:
                A.restrict(v, k % 2)
            A.variables()
    # sparse functions over 4-5 variables: operands that depend on few,
    # far-apart variables, so that roots sit several positions apart in the
    # ordering and restricted variables occur only in parts of a diagram
    V5 = ['a', 'b', 'c', 'd', 'e']
    nsp = 260 if ctx.quick else 12000
    for k in range(nsp):
        rr = gen.rng(ctx.seed, PROP, ('sparse', k))
        nv = 4 if k % 3 else 5
        vs = V5[:nv]
        order = list(vs)
        rr.shuffle(order)
        if not ctx.mine(k):
            continue
        _cache.clear()

        def sparse():
            sub = rr.sample(vs, rr.randint(1, 3))
            tt_sub = rr.getrandbits(1 << len(sub))
            e = refbool.expr_of_tt(tt_sub, sub, rr.randrange(3))
            return OBDD(e, list(order))
        A, B = sparse(), sparse()
        LOG.sig['sparse:%dvars' % nv] += 1
        A & B
        A | B
        A ^ B
        B ^ A
        ~A
        (A & B) ^ (A | B)
        for v in vs:
            A.restrict(v, k % 2)
            (A | B).restrict(v, (k + 1) % 2)
        (A ^ B).variables()
    # systematic: EVERY function of a 3-subset against EVERY function of a
    # 2-subset of four variables, under sampled orderings (all in thorough)
    import itertools as _it
    V4 = ['a', 'b', 'c', 'd']
    combos = []
    for s3 in _it.combinations(V4, 3):
        for s2 in _it.combinations(V4, 2):
            for o in _it.permutations(V4):
                combos.append((s3, s2, o))
    rc = gen.rng(ctx.seed, PROP, 'combos')
    rc.shuffle(combos)
    ncomb = 96 if ctx.quick else 576
    for ci, (s3, s2, o) in enumerate(combos[:ncomb]):
        if not ctx.mine(ci):
            continue
        _cache.clear()
        LOG.sig['systematic:3x2_subsets'] += 1
        G = [OBDD(refbool.expr_of_tt(tg, list(s2), tg % 3), list(o))
             for tg in range(16)]
        for tf in range(256):
            Fo = OBDD(refbool.expr_of_tt(tf, list(s3), tf % 3), list(o))
            for g in G:
                Fo & g
                Fo | g
                Fo ^ g
                if tf % 16 == 0:
                    g & Fo
                    g ^ Fo
            for v in V4:
                Fo.restrict(v, tf % 2)
    # orderings that differ / variables outside the ordering
    for k in range(40):
        if not ctx.mine(k):
            continue
        mismatch_block(k)
    ctx.extra['reach'] = probes.result()


def finalize(reports, ctx):
    merged = probes.merge([r['extra'].get('reach', {}) for r in reports])
    return {'coverage': {'reach': {k: {'lines': v['lines'], 'hit': v['hit'],
                                       'never_reached': v['never_reached']}
                                   for k, v in merged.items()}}}


def replay(ctx, rep):
    attach()
    from pyModelChecking.BDD import OBDD
    c = rep['case']
    if 'orderings' in c or 'expr' in c:
        mismatch_block(0)
        mismatch_block(1)
        return
    ol = c['ordering']
    V = sorted(ol)
    # truth tables were recorded over the ordering's own variable order
    A = OBDD(refbool.expr_of_tt(c['tt_A'], ol), list(ol))
    if 'tt_B' in c:
        B = OBDD(refbool.expr_of_tt(c['tt_B'], ol), list(ol))
        A & B
        A | B
        A ^ B
    ~A
    A.variables()
    for v in ol:
        A.restrict(v, 0)
        A.restrict(v, 1)
