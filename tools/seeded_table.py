#!/venv/bin/python
"""Print the markdown table of seeded defects and which checks catch them."""
import glob
import json
import os
HERE = os.path.dirname(os.path.dirname(os.path.abspath(__file__)))
rows = []
for d in sorted(glob.glob(os.path.join(HERE, 'seeded', '*'))):
    m = json.load(open(os.path.join(d, 'meta.json')))
    res = m.get('check_results', {})
    caught = '; '.join('%s: %s' % (k, v.split(' (')[0] +
                                   (' by ' + v.split('monitor=')[1].split(' ')[0]
                                    if 'monitor=' in v else ''))
                       for k, v in sorted(res.items()))
    rows.append('| %s | %s | %s | %s |' % (
        os.path.basename(d), m.get('breaks_property', m.get('property')),
        (m.get('summary', '')[:150]).replace('|', '/').replace('\n', ' '),
        caught))
print('| seeded defect | property | change | check result (quick tier) |')
print('|---|---|---|---|')
print('\n'.join(rows))
