"""sys.monitoring probes (Python 3.12): reach/coverage of anchored functions.

LINE events on chosen code objects, DISABLEd after the first hit per location,
so the cost is ~0 after warm-up.  Lines are reported by their source text, not
by number, so a must-reach requirement survives edits elsewhere in the file.
"""

import dis
import inspect
import sys

TOOL = 4
_state = {'on': False, 'codes': {}, 'hit': {}}


def _lines_of(code):
    return sorted(set(l for _, _, l in code.co_lines() if l is not None
                      and l != code.co_firstlineno))


def _all_codes(code):
    out = [code]
    for c in code.co_consts:
        if inspect.iscode(c):
            out.extend(_all_codes(c))
    return out


def watch(funcs):
    """funcs: iterable of (label, function).  Start recording lines hit."""
    mon = sys.monitoring
    if not _state['on']:
        try:
            mon.use_tool_id(TOOL, 'vmon-reach')
        except ValueError:
            pass

        def on_line(code, line):
            h = _state['hit'].get(code)
            if h is not None:
                h.add(line)
            return mon.DISABLE
        mon.register_callback(TOOL, mon.events.LINE, on_line)
        _state['on'] = True
    for label, fn in funcs:
        if fn is None:
            continue
        fn = getattr(fn, '__wrapped__', fn)
        code = getattr(fn, '__code__', None)
        if code is None:
            continue
        for c in _all_codes(code):
            if c not in _state['hit']:
                _state['hit'][c] = set()
                _state['codes'].setdefault(label, []).append(c)
                mon.set_local_events(TOOL, c, mon.events.LINE)


def _src_lines(code):
    try:
        lines, start = inspect.getsourcelines(code)
    except Exception:
        return {}
    return {start + i: l.strip() for i, l in enumerate(lines)}


def result():
    out = {}
    for label, codes in _state['codes'].items():
        total = 0
        hit = 0
        missed = []
        hits = []
        for c in codes:
            src = _src_lines(c)
            lines = _lines_of(c)
            h = _state['hit'][c]
            total += len(lines)
            for l in lines:
                if l in h:
                    hit += 1
                    hits.append(src.get(l, str(l)))
                else:
                    missed.append(src.get(l, str(l)))
        out[label] = {'lines': total, 'hit': hit, 'missed': missed,
                      'hit_src': hits}
    return out


def merge(results):
    """Merge per-worker results (union of hits)."""
    out = {}
    for r in results:
        for label, d in r.items():
            o = out.setdefault(label, {'lines': d['lines'], 'hit_src': set(),
                                       'missed': None, 'all': set()})
            o['hit_src'].update(d['hit_src'])
            o['all'].update(d['hit_src'])
            o['all'].update(d['missed'])
            ms = set(d['missed'])
            o['missed'] = ms if o['missed'] is None else (o['missed'] & ms)
    fin = {}
    for label, o in out.items():
        missed = sorted(m for m in (o['missed'] or ()) if m not in o['hit_src'])
        fin[label] = {'lines': o['lines'],
                      'hit': o['lines'] - len(missed),
                      'never_reached': missed}
        fin[label]['_hit_src'] = sorted(o['hit_src'])
        fin[label]['_all_src'] = sorted(o['all'])
    return fin


def requirement(merged, label, text):
    """'hit' | 'missed' | 'absent'.  'absent' = the anchored function is not
    there any more or no longer contains such a line (the requirement is
    waived: it described one implementation, not the property)."""
    d = merged.get(label)
    if not d:
        return 'absent'
    if any(text in s for s in d['_hit_src']):
        return 'hit'
    if any(text in s for s in d.get('_all_src', [])):
        return 'missed'
    return 'absent'


def reach_sigs(merged, must_sig):
    """Resolve the 'reach:<label>:<text>' entries of must_sig."""
    add = {}
    waived = []
    for need in must_sig:
        if need.startswith('reach:'):
            _, label, text = need.split(':', 2)
            r = requirement(merged, label, text)
            if r == 'hit':
                add[need] = 1
            elif r == 'absent':
                add[need] = 1
                waived.append(need)
    return add, waived


def reached(merged, label, text):
    d = merged.get(label)
    if not d:
        return False
    return any(text in s for s in d['_hit_src'])
