#!/venv/bin/python
"""Regenerate /verif/MANIFEST.json from the per-property CONFIG dictionaries."""
import importlib
import json
import os
import sys

HERE = os.path.dirname(os.path.dirname(os.path.abspath(__file__)))
sys.path.insert(0, HERE)
sys.path.insert(1, os.path.join(HERE, '.deps'))
ALL = ['C%02d' % i for i in range(1, 20)]

checks = []
na = []
for pid in ALL:
    path = os.path.join(HERE, 'vmon', 'props', pid.lower() + '.py')
    if not os.path.exists(path):
        na.append({'property_id': pid,
                   'reason': 'check not built yet (work in progress; see '
                             'DESIGN.md section 5 for the planned monitor)'})
        continue
    cfg = importlib.import_module('vmon.props.' + pid.lower()).CONFIG
    if cfg.get('not_claimed'):
        na.append({'property_id': pid, 'reason': cfg['not_claimed']})
        continue
    checks.append({
        'property_id': pid,
        'quick_cmd': './check %s --tier quick' % pid,
        'thorough_cmd': './check %s --tier thorough' % pid,
        'evidence_file': 'evidence/%s.json' % pid,
        'replay_cmd_template': './check %s --replay {path}' % pid,
        'engine': 'vmon',
        'level_claimed': {
            'category': 'exploration',
            'text': cfg['level_text'],
            'design_ref': 'DESIGN.md section 5, ' + pid,
        },
        'level_note': cfg['level_note'],
        'technique': cfg['technique'],
    })

manifest = {
    'version': 1,
    'setup_cmd': './setup.sh',
    'hooks': {
        'guard': 'PYMODELCHECKING_VERIF',
        'enable': ('no source hooks are needed: monitors are attached from '
                   'the harness by wrapping/rebinding the real functions and '
                   'with sys.monitoring; checks export '
                   'PYMODELCHECKING_VERIF=1 to their workers for uniformity'),
        'baseline_off_cmd': ('cd /repo && /venv/bin/python -m pytest -q '
                             '-p no:cacheprovider --timeout=900'),
        'source_commits': [],
        'add_only': True,
    },
    'engines': [{
        'name': 'vmon',
        'path': 'vmon/',
        'serves_properties': [c['property_id'] for c in checks],
        'kind_free_text': ('runtime monitoring: workloads drive the real '
                           'pyModelChecking code in fresh worker interpreters '
                           '(explicit PYTHONHASHSEED); wrappers rebound over '
                           'the real functions, icontract invariants and '
                           'sys.monitoring probes record every call; '
                           'executable reference models and relation '
                           'monitors judge each recorded execution'),
    }],
    'checks': checks,
    'not_applicable': na,
    'notes': ('All checks: ./check <ID> --tier quick|thorough; VERIF_SEED '
              'seeds every random choice. Exit 0 held / 1 VIOLATION / 2 '
              'INCONCLUSIVE (deciding monitor not reached). Known findings: '
              'known_findings.json.'),
}
with open(os.path.join(HERE, 'MANIFEST.json'), 'w') as fh:
    json.dump(manifest, fh, indent=1)
print('MANIFEST.json: %d checks, %d not claimed' % (len(checks), len(na)))
