#!/venv/bin/python
"""tools/seeded.py <dir> <name> [--keep] [--tier quick] [--also C01,C02]

Confirm and evaluate one seeded defect: <dir>/<name>.diff, <name>_demo.py,
<name>_meta.json.  On scratch copies of /repo's working tree under /tmp:
  1. the repository's own tests pass with the patch,
  2. the demonstration passes without and fails with the patch,
  3. ./check <property> (quick) is run against the patched copy.
With --keep the defect is stored as /verif/seeded/<name>/ {patch.diff, demo.py,
meta.json}.  Nothing is ever applied to /repo itself.
"""
import argparse
import json
import os
import shutil
import subprocess
import sys
import tempfile
import time

HERE = os.path.dirname(os.path.dirname(os.path.abspath(__file__)))
PY = '/venv/bin/python'


def sh(cmd, **kw):
    return subprocess.run(cmd, shell=True, capture_output=True, text=True,
                          **kw)


def main():
    ap = argparse.ArgumentParser()
    ap.add_argument('dir')
    ap.add_argument('name')
    ap.add_argument('--keep', action='store_true')
    ap.add_argument('--tier', default='quick')
    ap.add_argument('--also', default='')
    ap.add_argument('--prop', default=None)
    a = ap.parse_args()
    patch = os.path.join(a.dir, a.name + '.diff')
    demo = os.path.join(a.dir, a.name + '_demo.py')
    metaf = os.path.join(a.dir, a.name + '_meta.json')
    if not os.path.exists(patch):
        patch = os.path.join(a.dir, 'patch.diff')
        demo = os.path.join(a.dir, 'demo.py')
        metaf = os.path.join(a.dir, 'meta.json')
    meta = json.load(open(metaf))
    prop = a.prop or meta['property']
    tmp = tempfile.mkdtemp(prefix='vmon-seed-')
    res = {'name': a.name, 'property': prop}
    try:
        A = os.path.join(tmp, 'clean')
        B = os.path.join(tmp, 'patched')
        for d in (A, B):
            sh('rsync -a --exclude .git --exclude __pycache__ /repo/ %s/' % d)
        r = sh('patch -p1 -s < %s' % os.path.abspath(patch), cwd=B)
        if r.returncode != 0:
            res['patch'] = 'FAILED: ' + (r.stdout + r.stderr)[-300:]
            print(json.dumps(res, indent=1))
            return 2
        r = sh('PYTHONPATH=%s %s -m pytest -q -p no:cacheprovider '
               'pyModelChecking 2>&1 | tail -2' % (B, PY), cwd=B)
        res['tests_with_patch'] = r.stdout.strip().splitlines()[-1] \
            if r.stdout.strip() else 'no output'
        res['tests_pass'] = ' passed' in res['tests_with_patch'] and \
            'failed' not in res['tests_with_patch']
        for tag, d in (('clean', A), ('patched', B)):
            try:
                r = subprocess.run([PY, os.path.abspath(demo)],
                                   env=dict(os.environ, PYTHONPATH=d,
                                            PYTHONDONTWRITEBYTECODE='1'),
                                   capture_output=True, text=True,
                                   timeout=600, cwd=tmp)
                res['demo_' + tag] = r.returncode
                res['demo_%s_out' % tag] = (r.stdout + r.stderr)[-300:]
            except subprocess.TimeoutExpired:
                res['demo_' + tag] = 'timeout'
        res['demo_ok'] = res.get('demo_clean') == 0 and \
            res.get('demo_patched') not in (0, 'timeout')
        checks = [prop] + [x for x in a.also.split(',') if x]
        res['checks'] = {}
        for p in checks:
            out = os.path.join(tmp, 'out_' + p)
            os.makedirs(out, exist_ok=True)
            t0 = time.time()
            r = subprocess.run([os.path.join(HERE, 'check'), p, '--tier',
                                a.tier], cwd=HERE,
                               env=dict(os.environ, VMON_REPO=B,
                                        VMON_OUT=out),
                               capture_output=True, text=True)
            lines = [l for l in r.stdout.splitlines()
                     if l.startswith(('VIOLATION', 'INCONCLUSIVE', 'HELD'))
                     or l.startswith('  monitor=')]
            rp = None
            for l in r.stdout.splitlines():
                if l.startswith('VIOLATION') and 'replay=' in l:
                    rp = l.split('replay=', 1)[1].strip()
                    break
            replay = None
            if rp and os.path.exists(rp) and rp.endswith('.json') and \
                    '/replays/' in rp:
                r1 = subprocess.run([os.path.join(HERE, 'check'), p,
                                     '--replay', rp], cwd=HERE,
                                    env=dict(os.environ, VMON_REPO=B,
                                             VMON_OUT=out),
                                    capture_output=True, text=True)
                r2 = subprocess.run([os.path.join(HERE, 'check'), p,
                                     '--replay', rp], cwd=HERE,
                                    env=dict(os.environ, VMON_REPO=A,
                                             VMON_OUT=out),
                                    capture_output=True, text=True)
                replay = {'patched_exit': r1.returncode,
                          'clean_exit': r2.returncode,
                          'ok': r1.returncode == 1 and r2.returncode == 0}
            res['checks'][p] = {
                'replay': replay,
                'exit': r.returncode,
                'verdict': 'CAUGHT' if r.returncode == 1 else
                ('INCONCLUSIVE' if r.returncode == 2 else 'MISSED'),
                'wall_s': round(time.time() - t0, 1),
                'first_lines': lines[:3]}
        res['caught_by'] = [p for p, v in res['checks'].items()
                            if v['verdict'] == 'CAUGHT']
        print(json.dumps(res, indent=1))
        if a.keep:
            dst = os.path.join(HERE, 'seeded', a.name)
            os.makedirs(dst, exist_ok=True)
            for src, name in ((patch, 'patch.diff'), (demo, 'demo.py')):
                if os.path.abspath(src) != os.path.join(dst, name):
                    shutil.copy(src, os.path.join(dst, name))
            meta2 = dict(meta)
            meta2.pop('check_results', None)
            meta2['breaks_property'] = prop
            meta2['confirmed'] = {
                'tests_with_patch': res['tests_with_patch'],
                'demo_without_patch_exit': res.get('demo_clean'),
                'demo_with_patch_exit': res.get('demo_patched'),
                'ran': ['patch applied to a scratch copy of /repo under /tmp',
                        'pytest pyModelChecking (repository suite)',
                        'demo.py against clean and patched copies',
                        './check %s --tier %s with VMON_REPO=<patched copy>'
                        % (','.join(checks), a.tier)]}
            meta2['check_results'] = {p: v['verdict'] + (
                ' (%s)' % v['first_lines'][1].strip()[:160]
                if v['verdict'] == 'CAUGHT' and len(v['first_lines']) > 1
                else '') for p, v in res['checks'].items()}
            json.dump(meta2, open(os.path.join(dst, 'meta.json'), 'w'),
                      indent=1)
        return 0
    finally:
        shutil.rmtree(tmp, ignore_errors=True)


if __name__ == '__main__':
    sys.exit(main())
